#!/bin/bash
# Soundness of the machinery itself (DESIGN.md §11).
#   selftest.sh determinism   event logs of many seeds twice in separate processes; evidence at 1/5/16 workers
#   selftest.sh sensitivity   every seeded change under seeded/ must be caught by the checks named in its meta.json
VERIF_DIR="$(cd "$(dirname "${BASH_SOURCE[0]}")" && pwd)"
export VERIF_DIR CARGO_NET_OFFLINE=true
cd "$VERIF_DIR" || exit 2
REPO="${VERIF_REPO:-/repo}"
mode="${1:-determinism}"
bin="$VERIF_DIR/sim/target/release/hpsim"
./v setup >/dev/null || exit 2
case "$mode" in
determinism)
    w="$VERIF_DIR/work/det-$$"; mkdir -p "$w"; fail=0
    n="${2:-4000}"
    for s in 20261004 1 7; do
        VERIF_SEED=$s "$bin" dump C00 0 "$n" > "$w/a-$s.log" 2>&1 &
        VERIF_SEED=$s "$bin" dump C00 0 "$n" > "$w/b-$s.log" 2>&1 &
    done; wait
    for s in 20261004 1 7; do
        if cmp -s "$w/a-$s.log" "$w/b-$s.log"; then echo "event logs identical: VERIF_SEED=$s runs=$n lines=$(wc -l < "$w/a-$s.log")"; else echo "NONDETERMINISM in event logs for VERIF_SEED=$s"; diff "$w/a-$s.log" "$w/b-$s.log" | head -5; fail=1; fi
    done
    for j in 1 5 16; do
        VERIF_JOBS=$j VERIF_SCALE=0.1 VERIF_EVIDENCE_OUT="$w/ev-$j.json" "$bin" check C03 quick >/dev/null 2>&1
        grep -vE '"wall_s"|"runs_per_hour"' "$w/ev-$j.json" > "$w/ev-$j.txt"
    done
    for j in 5 16; do
        if cmp -s "$w/ev-1.txt" "$w/ev-$j.txt"; then echo "evidence identical at 1 and $j workers"; else echo "NONDETERMINISM: evidence differs between 1 and $j workers"; diff "$w/ev-1.txt" "$w/ev-$j.txt" | head -6; fail=1; fi
    done
    rm -rf "$w"; exit $fail ;;
sensitivity)
    fail=0
    for d in seeded/*/; do
        id=$(basename "$d"); [ -f "$d/patch.diff" ] || continue
        checks=$(python3 -c "import json,sys; print(' '.join(json.load(open(sys.argv[1]))['caught_by']))" "$d/meta.json")
        [ -z "$checks" ] && { echo "$id: not expected to be caught (see meta.json)"; continue; }
        (cd "$REPO" && git diff --quiet) || { echo "repo dirty"; exit 2; }
        (cd "$REPO" && git apply "$VERIF_DIR/$d/patch.diff") || { echo "$id: patch does not apply"; fail=1; continue; }
        tier=$(python3 -c "import json,sys; print(json.load(open(sys.argv[1])).get('tier','quick'))" "$d/meta.json")
        for c in $checks; do
            ./v check "$c" "$tier" >/dev/null 2>&1; rc=$?
            if [ $rc -eq 1 ]; then echo "$id: caught by $c"; else echo "$id: MISSED by $c (rc=$rc)"; fail=1; fi
        done
        (cd "$REPO" && git reset -q --hard HEAD && git clean -fdq -- src tests build.rs)
    done
    for m in mutants/*.diff; do
        c=$(basename "$m" | cut -d- -f1)
        (cd "$REPO" && git apply "$VERIF_DIR/$m") || { echo "$m: patch does not apply"; fail=1; continue; }
        ./v check "$c" quick >/dev/null 2>&1; rc=$?
        if [ $rc -eq 1 ]; then echo "$(basename "$m"): caught by $c"; else echo "$(basename "$m"): MISSED by $c (rc=$rc)"; fail=1; fi
        (cd "$REPO" && git reset -q --hard HEAD)
    done
    ./v setup >/dev/null
    exit $fail ;;
*) echo "usage: selftest.sh determinism|sensitivity"; exit 2 ;;
esac
