#!/bin/bash
# usage: seedtest.sh <patch> <ID> [ID...]   — apply a seeded change to /repo, run the quick checks, undo it.
p="$1"; shift
cd /repo || exit 2
git diff --quiet || { echo "repo dirty"; exit 2; }
if ! git apply --3way "$p" 2>/tmp/seedtest.err; then echo "APPLY-FAILED $p: $(head -2 /tmp/seedtest.err)"; git reset -q --hard HEAD; exit 3; fi
for id in "$@"; do
  out=$(cd /verif && timeout 900 ./v check "$id" quick 2>&1); rc=$?
  echo "== $p $id rc=$rc $(echo "$out" | grep -c '^VIOLATION') violation(s)"
  echo "$out" | grep -E '^\s+\[C' | head -3 | cut -c1-300
done
git reset -q --hard HEAD; git clean -fdq -- src tests build.rs
git status --short | grep -v '^??' | head
# leave no simulator binary behind that was built against the patched tree
(cd /verif/sim && RUSTFLAGS="--cfg httparse_verif --cfg hp_rt" cargo build --offline --release >/dev/null 2>&1)
