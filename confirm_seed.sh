#!/bin/bash
# usage: confirm_seed.sh <ID> <A|B>  — confirm a seeded change in its scratch worktree:
#   existing suite passes with the change; the demo fails with it and passes without it.
id="$1"; v="$2"; wt=${WT:-/tmp/wt}/$id; out=${OUT:-/tmp/seed-out}/$id
cd "$wt" || exit 2
git reset -q --hard; git clean -fdq -- src tests build.rs; git checkout -q --detach main
if ! git apply --3way "$out/$v.diff" 2>/dev/null; then echo "$id/$v APPLY-FAILED"; git reset -q --hard; exit 3; fi
git reset -q   # unstage, keep working tree changes
git diff > "$out/$v.rebased.diff"
cp "$out/demo_$v.rs" tests/demo_seed.rs
suite=$(cargo test --offline --lib --test uri 2>&1 | grep -E "^test result" | tr '\n' ' ')
demo_with=$(cargo test --offline --test demo_seed 2>&1 | grep -E "^test result|error(\[|:)" | head -2 | tr '\n' ' ')
git checkout -q -- . ; git clean -fdq -- src build.rs
demo_without=$(cargo test --offline --test demo_seed 2>&1 | grep -E "^test result|error(\[|:)" | head -2 | tr '\n' ' ')
rm -f tests/demo_seed.rs
echo "$id/$v | suite-with: $suite | demo-with: $demo_with | demo-without: $demo_without"
