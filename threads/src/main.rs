//! coldstart: N simulated caller threads make their first parse call concurrently, after the
//! cached backend id was reset to 0, on a simulated CPU (AVX2 / SSE4.2-only / none). The schedule
//! is owned by shuttle (seeded random or PCT scheduler); scheduling points are injected into
//! `get_runtime_feature` through hook H1, so the crate needs no shuttle types.
//!
//!   hpsim-threads run <seed> <iterations> <out-dir>     exit 1 + replay file on a violation
//!   hpsim-threads replay <file>
//!
//! Oracles: every thread returns what the single-threaded reference returned; no thread ever
//! dispatches on a backend id the simulated CPU does not have; the cache ends at the detected id.

use shuttle::scheduler::{PctScheduler, RandomScheduler};
use shuttle::{Config, FailurePersistence, Runner};
use std::sync::atomic::{AtomicU64, AtomicU8, AtomicUsize, Ordering};

static SIM_CPU: AtomicU8 = AtomicU8::new(1);
static BAD_DISPATCH: AtomicUsize = AtomicUsize::new(0);
static DETECTIONS: AtomicU64 = AtomicU64::new(0);
static POINTS: AtomicU64 = AtomicU64::new(0);
static MAX_CONCURRENT_DETECT: AtomicU64 = AtomicU64::new(0);
static IN_DETECT: AtomicU64 = AtomicU64::new(0);

/// Called by httparse at the four steps of get_runtime_feature (only in verif builds).
fn hook(point: u8, value: u8) {
    POINTS.fetch_add(1, Ordering::Relaxed);
    match point {
        1 => {
            DETECTIONS.fetch_add(1, Ordering::Relaxed);
            let c = IN_DETECT.fetch_add(1, Ordering::Relaxed) + 1;
            MAX_CONCURRENT_DETECT.fetch_max(c, Ordering::Relaxed);
        }
        2 => {
            IN_DETECT.fetch_sub(1, Ordering::Relaxed);
        }
        3 => {
            // about to dispatch on `value`: 1 = AVX2, 2 = SSE4.2, 3 = scalar. Smaller id = more
            // capable CPU needed. 0 or >3 falls to the scalar arm in the crate, which is safe.
            let cpu = SIM_CPU.load(Ordering::Relaxed);
            if value != 0 && value < cpu {
                BAD_DISPATCH.fetch_add(1, Ordering::Relaxed);
            }
        }
        _ => {}
    }
    // a scheduling point the simulator owns (sleep(0), not yield_now: PCT deprioritises yielders)
    shuttle::thread::sleep(std::time::Duration::from_millis(0));
}

const REQ: &[u8] = b"GET /a/rather/long/target/so-that-the-vector-loop-runs/0123456789/abcdefghijklmnopqrstuvwxyz HTTP/1.1\r\nHost: example.org\r\nX-Long-Header-Value: 0123456789abcdefghijklmnopqrstuvwxyz0123456789abcdefghijklmnopqrstuvwxyz\r\nAccept: */*\r\n\r\n";
const RESP: &[u8] = b"HTTP/1.1 200 OK\r\nServer: some-server/1.0 (with a long comment to cross thirty-two bytes)\r\nContent-Length: 0\r\n\r\n";
const BAD: &[u8] = b"GET /path-with-a-bad-byte-far-into-the-target-aaaaaaaaaaaaaaaaaaaaaaaaaaaaaaaa\x7f HTTP/1.1\r\n\r\n";

fn parse_all() -> (u64, u64, u64) {
    let mut h = [httparse::EMPTY_HEADER; 8];
    let mut r = httparse::Request::new(&mut h);
    let a = match r.parse(REQ) {
        Ok(httparse::Status::Complete(n)) => n as u64 * 1000 + r.headers.len() as u64 * 10 + r.path.map_or(0, |p| p.len() as u64) * 100000,
        Ok(httparse::Status::Partial) => 1,
        Err(_) => 2,
    };
    let mut h2 = [httparse::EMPTY_HEADER; 8];
    let mut q = httparse::Response::new(&mut h2);
    let b = match q.parse(RESP) {
        Ok(httparse::Status::Complete(n)) => n as u64 * 1000 + q.headers.len() as u64 * 10 + q.headers.first().map_or(0, |x| x.value.len() as u64) * 100000,
        Ok(httparse::Status::Partial) => 1,
        Err(_) => 2,
    };
    let mut h3 = [httparse::EMPTY_HEADER; 8];
    let mut r3 = httparse::Request::new(&mut h3);
    let c = match r3.parse(BAD) {
        Ok(httparse::Status::Complete(n)) => n as u64,
        Ok(httparse::Status::Partial) => 1,
        Err(e) => 100 + e as u64,
    };
    (a, b, c)
}

fn scenario() {
    use shuttle::rand::Rng;
    let mut rng = shuttle::rand::thread_rng();
    let cpu: u8 = rng.gen_range(1u8..=3);
    let nthreads: usize = rng.gen_range(2usize..=16);
    SIM_CPU.store(cpu, Ordering::Relaxed);
    BAD_DISPATCH.store(0, Ordering::Relaxed);
    IN_DETECT.store(0, Ordering::Relaxed);
    httparse::__verif::set_hook(None);
    httparse::__verif::force_backend(cpu);
    httparse::__verif::reset_cache();
    let reference = parse_all(); // single-threaded, hook off
    httparse::__verif::reset_cache(); // cold again
    httparse::__verif::set_hook(Some(hook));
    let mut hs = Vec::new();
    for _ in 0..nthreads {
        hs.push(shuttle::thread::spawn(parse_all));
    }
    let got: Vec<(u64, u64, u64)> = hs.into_iter().map(|h| h.join().unwrap()).collect();
    httparse::__verif::set_hook(None);
    for (i, g) in got.iter().enumerate() {
        assert_eq!(*g, reference, "C13 thread {} of {} returned a different result than the single-threaded reference on simulated cpu {}", i, nthreads, cpu);
    }
    assert_eq!(BAD_DISPATCH.load(Ordering::Relaxed), 0, "C13 a thread dispatched on a backend the simulated cpu {} does not have", cpu);
    assert_eq!(httparse::__verif::cached(), cpu, "C13 cached backend id differs from the detected one after the race");
}

fn main() {
    let a: Vec<String> = std::env::args().collect();
    match a.get(1).map(|s| s.as_str()) {
        Some("run") => {
            let seed: u64 = a[2].parse().unwrap();
            let iters: usize = a[3].parse().unwrap();
            let dir = a[4].clone();
            std::fs::create_dir_all(&dir).unwrap();
            let mut total_sched = 0u64;
            for (name, which) in [("random", 0), ("pct", 1)] {
                let mut cfg = Config::new();
                cfg.failure_persistence = FailurePersistence::File(Some(std::path::PathBuf::from(&dir)));
                let res = std::panic::catch_unwind(|| {
                    if which == 0 {
                        Runner::new(RandomScheduler::new_from_seed(seed, iters), cfg).run(scenario)
                    } else {
                        Runner::new(PctScheduler::new_from_seed(seed ^ 0x9e37, 3, iters), cfg).run(scenario)
                    }
                });
                match res {
                    Ok(n) => total_sched += n as u64,
                    Err(e) => {
                        let msg = e.downcast_ref::<String>().cloned().or_else(|| e.downcast_ref::<&str>().map(|s| s.to_string())).unwrap_or_default();
                        println!("COLDSTART-VIOLATION scheduler={} {}", name, msg.lines().next().unwrap_or(""));
                        // shuttle wrote schedule000.txt (or similar) into dir
                        std::process::exit(1);
                    }
                }
            }
            println!(
                "COLDSTART schedules={} detections={} hook_points={} max_concurrent_detections={}",
                total_sched,
                DETECTIONS.load(Ordering::Relaxed),
                POINTS.load(Ordering::Relaxed),
                MAX_CONCURRENT_DETECT.load(Ordering::Relaxed)
            );
        }
        Some("replay") => {
            let res = std::panic::catch_unwind(|| shuttle::replay_from_file(scenario, &a[2]));
            match res {
                Ok(()) => println!("no violation reproduced"),
                Err(e) => {
                    let msg = e.downcast_ref::<String>().cloned().or_else(|| e.downcast_ref::<&str>().map(|s| s.to_string())).unwrap_or_default();
                    println!("VIOLATION-REPRODUCED property=C13 oracle=coldstart {}", msg.lines().next().unwrap_or(""));
                    std::process::exit(1);
                }
            }
        }
        _ => {
            eprintln!("usage: hpsim-threads run <seed> <iters> <dir> | replay <file>");
            std::process::exit(2);
        }
    }
}
