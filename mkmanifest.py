#!/usr/bin/env python3
"""Regenerates /verif/MANIFEST.json (kept as a script so texts stay in one place)."""
import json, subprocess

def commits():
    out = subprocess.run(["git", "-C", "/repo", "log", "--format=%h %s"], capture_output=True, text=True).stdout
    return [l.split()[0] for l in out.splitlines() if l.split(" ", 1)[1].startswith("verif hook")]

SIM = "seeded deterministic simulation (hpsim): "
C = {
 "C01": ("exploration", "§5 C01",
   "Every parse call of simulated connections, prefix sweeps (EOF at every byte), reuse histories and adversarial inputs up to 64 KiB (quick) / 1 MiB (thorough) is made with the buffer and the header array placed against PROT_NONE guard pages or at a chosen alignment with stale/future/bait tails, under every entry point, sampled configs, capacities 0..64 and forced backends; a panic, signal, hang (per-run watchdog), stack overflow (the simulated caller has a 1 MiB stack) or tail-dependent answer is a violation. Sampled, so evidence not proof; the debug-assertion build of the simulator (30% of the runs), a slice of the plan on every other built variant (compile-time sse4.2 / avx2, SIMD disabled, no_std: code that only exists at their cfg-lattice points) and the Miri engine add arithmetic-overflow, debug_assert and never-dereferenced out-of-bounds detection.",
   "guard pages catch dereferenced out-of-bounds accesses only; sizes <= 1 MiB; x86-64 only; Miri engine runs a small batch",
   SIM + "placement faults (guard pages, alignment, tails, relocation, stable buffer) + EOF at every point; no-panic/no-signal/tail-independence monitors; debug-profile variant; Miri batch"),
 "C02": ("fault_enumeration", "§5 C02",
   "For each sampled (possibly corrupted) head, EOF is injected at EVERY byte (prefix sweep): the outcome sequence must be Partial* then one constant verdict with identical fields, also after appending arbitrary bytes, and start-line fields reported with Partial must keep their value; in simulated connections the same wire is delivered under two independent schedules and the connection histories must be equal. Enumeration over crash points of sampled streams, sampling over streams and knobs.",
   "streams, configs and capacities are sampled; cut points are enumerated exhaustively per sampled stream (<= 700 bytes)",
   SIM + "EOF fault enumerated at every split point; delivery histories under two schedules; prefix-monotonicity and chunking-invariance oracles"),
 "C03": ("exploration", "§5 C03",
   "Pipelined keep-alive connections with adversarial bodies (CRLFCRLF, header-looking lines, next message) are received by the documented parse loop; the head end reported by the parser is compared with the sender's ground truth (strict, uncorrupted messages), with an independent linear first-empty-line scan on every call including corrupted streams and all configs, and the connection history must contain every message exactly once with all bytes consumed.",
   "sampled streams/configs; the independent scan re-implements only 'first empty line' and the allow_space_before_first_header_name exception",
   SIM + "pipelined connections with wire faults; sender ground truth, independent first-empty-line scan (M-frame), exactly-once/conservation over the connection history"),
 "C04": ("exploration", "§5 C04",
   "Runtime half only: after every call (Complete, Partial, Err; all entry points incl. uninit; buffers relocated between calls or kept at a stable address) every non-empty returned slice must lie inside the buffer of that call, inside buf[..n] on Complete, in input order without overlap; slots written before Partial/Err must point into the buffer. Sentinel headers live outside every buffer, so a content-equal but pointer-wrong field is caught.",
   "the 'no safe program can keep a field after its buffer' half is a statement about rustc's verdict on client programs; no schedule or fault is involved and the simulator does not decide it (DESIGN.md §6)",
   SIM + "pointer-range/order monitor (M-ptr) after every call under relocation faults"),
 "C05": ("exploration", "§5 C05",
   "Wire corruption (bit flip, substitute, insert, delete, segment drop/dup/swap; boundary palette NUL, CR, LF, HTAB, DEL, 0x80..) is injected into heads in flight; after every call the model-free hygiene monitor checks UTF-8 validity of every &str (any outcome), class membership of method/path/names/reason/values, value edges, CR/LF only under folding and only before SP/HTAB, no NUL / bare CR in buf[..n], version and code. Thorough adds substitute(pos, byte) at every position x 256 values.",
   "sampled; monitor is independent of the reference model",
   SIM + "byte-corruption faults + field-hygiene monitor (M-hyg); byte-sweep fault enumeration in thorough"),
 "C06": ("exploration", "§5 C06-C10",
   "Refinement of every request parse call in simulated connections and prefix sweeps against an independent byte-at-a-time reference model of the request-line grammar (both settings of the multi-space option); corruption faults generate the rejected side; every delivery is a prefix verdict (Err, or Partial if the buffer ends first). Uncorrupted strict messages are additionally compared with the sender's truth.",
   "'no other string is accepted' is supported by seeded search and sweeps only; the model is trusted as the reading of the statement",
   SIM + "model refinement over simulated deliveries, request line"),
 "C07": ("exploration", "§5 C06-C10",
   "As C06 for the status line: version, SP, three digits (all 1000 codes generated), optional reason incl. HTAB/SP-led/obs-text (valid and invalid UTF-8) reported as empty, both settings of the response multi-space option; every call compared with the reference model, strict messages with sender truth.",
   "as C06",
   SIM + "model refinement over simulated deliveries, status line"),
 "C08": ("exploration", "§5 C06-C10",
   "Header blocks of requests, responses and parse_headers (and chunked-body trailers) with all header options off: every call compared with the reference model (exact name/value spans, trimming, count, order), strict messages with the sender's header list; names 1..100, values 0..100 so every SIMD block phase occurs; forced backends.",
   "as C06",
   SIM + "model refinement over simulated deliveries, header block under default options"),
 "C09": ("exploration", "§5 C09",
   "Chunked bodies are received with the push loop over parse_chunk_size (rich size lines: 0..20 digits, boundary patterns, leading zeros, LWS, extensions with any byte); every call is compared with the chunk-size model (exact u64, 1..16 digits, CRLF rules, Partial at every cut), body bytes attributed to chunks must equal the sender's, and the same seeds are replayed by the release and the debug-assertions build, whose outcome digests must be identical.",
   "sampled; debug vs release compared on a shared seed list, not on all inputs",
   SIM + "chunked-body framing in the push loop; chunk-size model; byte conservation; debug-vs-release built variants replaying the same seeds"),
 "C10": ("exploration", "§5 C06-C10",
   "For every rejected buffer in the simulated runs the error kind must equal the reference model's classification of the first offending byte; TooManyHeaders must occur exactly when the (cap+1)-th well-formed line completes (capacity is a per-run knob 0..64).",
   "as C06",
   SIM + "model refinement of error kinds under corruption faults; capacity knob"),
 "C11": ("exploration", "§5 C11",
   "Bounded liveness: at sampled Partial states (every cut of prefix sweeps, deliveries of connections) faults stop, capacity is made unlimited and one more segment from a finite completion set (162 candidates; 4 for chunk size) is delivered: some member must yield Complete. The stated UTF-8 exception is recognised and counted; a state the reference model cannot complete either is counted as not judged. Independently, Partial where the model says Err is reported. One run in 25 is a threshold-probing run: one long clean element (target, reason, value, name, chunk extension) whose length sits at a power of two or a multiple of 32, a class-boundary byte within -40..+150 of the threshold, EOF at every cut around that byte.",
   "completion set is finite; states neither implementation nor model can complete from it are skipped (counted in evidence)",
   SIM + "bounded-liveness completion search at Partial states once faults stop; model cross-check"),
 "C13": ("exploration", "§5 C13",
   "Three mechanisms comparing outcome digests: (1) sampled calls re-issued under another forced runtime backend (AVX2/SSE4.2/SWAR via hook H1) and another placement/alignment; (2) built variants of the simulator (runtime detection, SIMD disabled, compile-time sse4.2 / avx2, runtime-only, no_std; release and debug-assertions) replay the same seed list and must print identical digests, a variant that fails to build is a violation; (3) cold-start race: 2..16 simulated threads make their first parse call under shuttle's seeded random/PCT schedulers with scheduling points inside get_runtime_feature and a simulated CPU; results must equal the single-threaded reference and no thread may dispatch above the simulated CPU; plus real threads under Miri many-seeds.",
   "NEON and 32-bit variants cannot be built or run here; the switch-combination build sweep is a configuration sweep, not simulation",
   SIM + "backend/placement flips per call; built variants replaying seeds; shuttle-scheduled cold-start race with replayable schedules; Miri many-seeds"),
 "C14": ("exploration", "§5 C06-C10",
   "Header blocks under every non-default combination of the header options (A, F, S, ignore-invalid) x {request, response}: every call compared with the reference model parameterised by the same options; lenient constructs (space before colon, folds incl. whitespace-only and after empty values, leading whitespace, invalid lines, NUL and lone CR in ignorable lines) are generated whether or not the run's config admits them, and corrupted in flight.",
   "as C06",
   SIM + "model refinement over simulated deliveries under the 16 header-option sets"),
 "C15": ("exploration", "§5 C15",
   "Metamorphic: the recorded delivery of a call is replayed under other configs; a buffer the default config completes must give the identical result under sampled (sometimes all 128) configs except the documented reason exception, and flipping only other-kind options must change nothing for any buffer.",
   "configs sampled per call (all 128 on a quarter of the sampled calls)",
   SIM + "config as per-run knob; recorded deliveries replayed under other configs (metamorphic)"),
 "C16": ("exploration", "§5 C16",
   "The entry point is a per-call knob; sampled calls are re-issued through every other entry point of the same kind on identical arguments and must agree in status, fields and headers; parse_headers on the header part must agree with the message parse (offset shifted). On kept values (reuse histories, a third of the runs) the whole history is run a second time on a second value with the probe issued through another entry point at the capacity the first probe saw: status and start-line fields (headers too on Complete) must agree, so an entry point that treats the value's earlier state differently is seen.",
   "Response has no parse_with_uninit_headers of its own; the uninit response path is ParserConfig::parse_response_with_uninit_headers",
   SIM + "entry point as per-call knob; pairwise differential on fresh values and on identical call histories"),
 "C17": ("fault_enumeration", "§5 C17",
   "Arrays are pre-filled with sentinels (init) or poison (uninit) and snapshotted; after every call the storage monitor checks count, start, untouched slots, whole-array restore after Partial/Err, untouched `headers` for uninit entry points, no poison exposed. Capacity law by differential: capacities 0..k+2 and unlimited are enumerated at sampled cuts (every cut in prefix sweeps is eligible) and must form a step at the independently counted number of completed lines.",
   "capacities enumerated per sampled (buffer, cut); buffers sampled",
   SIM + "early exit (EOF/Err) at every cut through the restore paths; storage monitor; capacity enumeration differential"),
 "C18": ("exploration", "§5 C18",
   "Histories of 1..4 earlier calls (other messages, prefixes, corrupted ones, any config, init and uninit entry points, relocated or same-address buffers) on one value, then a probe (one history in 40 is a threshold history: an unrelated earlier message, growing prefixes of a message with a >= 128..16 KiB element cut near the threshold or between the structural bytes after it, then the message, at one address); and connections served by a value kept across Partial / across messages / shared by all connections (interleaving decided by the event queue). Every call on a reused value is repeated on a fresh value of equal capacity: status, and fields/headers on Complete, must be equal; and a non-Complete call on a kept value must leave headers.len() as it found it (the mechanism the property is anchored in), so that the next call sees what a fresh value would.",
   "histories sampled",
   SIM + "reuse histories and multi-connection interleavings on a shared value; reused-vs-fresh differential"),
 "C19": ("exploration", "§5 C19",
   "A counting #[global_allocator] is armed for exactly the duration of every parse call in all scenarios (every outcome kind, config, entry point); any allocator call is a violation; one run in five injects allocation failure (null) instead, and one in seven runs with a cold dispatch cache and the environment fault (the simulator owns getenv: every variable is reported as set). The no_std half: the --no-default-features build of crate and simulator replays seeds with the counter at zero, and all 16 no_std points of the build-switch lattice must build (a configuration sweep, labelled as such).",
   "that the no_std build links against core alone is a build-graph fact, observed only as 'the variant builds'",
   SIM + "allocator seam armed around every call (counting and failing), environment seam, cold dispatch cache; no_std built variant and build lattice"),
 "C20": ("exploration", "§5 C20",
   "Weak fit (no schedule or fault in the statement): hook H2 meters cursor travel; every call of every scenario, with adversarial families (fold runs, ignored lines, whitespace runs, HTAB lanes, huge tokens, tiny headers) up to 64 KiB quick / 1 MiB thorough, must satisfy advanced <= len, no backward move, operations <= 8*len+256. Second clock, independent of the hook: exact instruction counts (valgrind cachegrind) of one parse of 16 adversarial families at N and 4N; the cost ratio must stay <= 6 (linear = 4, quadratic = 16); the per-run watchdog catches work that does not finish at all.",
   "the hook meter sees only work done through the Bytes cursor; the instruction clock sees everything but only on the fixed families and sizes",
   SIM + "metered-work invariant on simulated runs (deterministic cost clock) + instruction-count clock at two sizes"),
}

m = {
 "version": 1,
 "setup_cmd": "./v setup",
 "hooks": {"guard": "httparse_verif", "enable": "RUSTFLAGS=\"--cfg httparse_verif\" (the simulator adds --cfg hp_rt at the runtime-detection lattice point)",
           "baseline_off_cmd": "cd /repo && cargo nextest run --workspace --no-fail-fast --offline",
           "source_commits": commits(), "add_only": True},
 "engines": [
   {"name": "hpsim", "path": "sim/", "serves_properties": sorted(C), "kind_free_text": "dependency-free seeded simulator: sender, wire faults, receiver loop, placement arena with guard pages, reference model, monitors, minimiser, replay; worker processes"},
   {"name": "variants", "path": "variants.sh", "serves_properties": ["C01","C05","C06","C07","C08","C09","C10","C13","C14","C19"], "kind_free_text": "12 differently built copies of hpsim replaying the same seeds (digest comparison, or the full check on a slice); 32-point build lattice (configuration sweep)"},
   {"name": "hpsim-threads", "path": "threads/", "serves_properties": ["C13"], "kind_free_text": "shuttle 0.9.3: cold-start race of 2..16 simulated threads under seeded Random/PCT schedulers, replayable schedule file"},
   {"name": "miri", "path": "sim/ and sim-shadow/ (shadow manifest keeps SIMD on)", "serves_properties": ["C01","C13"], "kind_free_text": "Miri on the nightly toolchain: a small batch of simulated runs and a many-seeds thread race with real std threads"},
   {"name": "icount", "path": "extra/C20.sh", "serves_properties": ["C20"], "kind_free_text": "valgrind cachegrind instruction counts of one parse at N and 4N for 24 adversarial families"},
 ],
 "checks": [],
 "notes": "See DESIGN.md. Every check: ./v check <ID> quick|thorough; replay: ./v replay <file>. VERIF_SEED seeds everything (default 20261004); VERIF_JOBS workers (default 16).",
 "not_applicable": [
   {"property_id": "C12", "reason": "internal pure scanner functions (bytes, len, alignment) -> stop position: no history, schedule, clock or fault for a simulator to own; deciding it is bounded enumeration (model checking), and the NEON backend cannot execute in this x86-64 sandbox; indirect coverage via C06/C08/C13 under forced backends is reported there (DESIGN.md §6)"},
 ],
}
GRAMMAR = {"C05","C06","C07","C08","C10","C14"}
PROFILE = {"C02","C03","C04","C11","C15","C16","C17","C18"}
for pid in sorted(C):
    cat, ref, text, note, tech = C[pid]
    if pid in GRAMMAR:
        text += " In addition the property's own seed list is replayed in digest mode by the other built variants of the simulator (debug-assertions, SIMD disabled, compile-time sse4.2 / avx2, no_std; thorough: all 8): the runtime-detection build, which the main run validates, must agree with each of them."
        tech += "; own plan replayed by built variants (digest comparison)"
    if pid in PROFILE:
        text += " A fifth of the runs is repeated by the debug-assertions build of the simulator (debug_assert!, overflow checks and cfg!(debug_assertions) branches of the crate live; a panic in any re-issued call is a differing result)."
        tech += "; debug-assertions slice" 
    m["checks"].append({
        "property_id": pid,
        "quick_cmd": f"./v check {pid} quick",
        "thorough_cmd": f"./v check {pid} thorough",
        "evidence_file": f"/verif/evidence/{pid}.json",
        "replay_cmd_template": "./v replay {path}",
        "engine": "hpsim",
        "level_claimed": {"category": cat, "text": text, "design_ref": ref},
        "level_note": note,
        "technique": tech,
    })
json.dump(m, open("/verif/MANIFEST.json", "w"), indent=1)
print("wrote MANIFEST.json with", len(m["checks"]), "checks")
