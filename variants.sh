#!/bin/bash
# Built variants of the simulator (DESIGN.md §2.3 `variants`, §5 C13): the same seed list is
# executed by differently built copies of hpsim in digest mode; digests must be identical.
#   variants.sh build <name>                 -> prints binary path (exit 1 if the variant does not build)
#   variants.sh build-quick                  -> builds the quick set
#   variants.sh compare <planid> <n> <ref> <name>...   -> prints MISMATCH lines; exit 1 on mismatch, 2 on build failure
#   variants.sh lattice                      -> builds the library at all 32 switch combinations
set -u
VERIF_DIR="$(cd "$(dirname "${BASH_SOURCE[0]}")" && pwd)"
SIM="$VERIF_DIR/sim"
export CARGO_NET_OFFLINE=true
HOOKS="--cfg httparse_verif"

spec() { # name -> profile|rustflags|env|cargo args
    case "$1" in
    rt)            echo "release|--cfg hp_rt||" ;;
    rt-dbg)        echo "dbg|--cfg hp_rt||" ;;
    swar)          echo "release||CARGO_CFG_HTTPARSE_DISABLE_SIMD=1|" ;;
    swar-dbg)      echo "dbg||CARGO_CFG_HTTPARSE_DISABLE_SIMD=1|" ;;
    sse42-ct)      echo "release|-C target-feature=+sse4.2||" ;;
    sse42-ct-dbg)  echo "dbg|-C target-feature=+sse4.2||" ;;
    avx2-ct)       echo "release|-C target-feature=+avx2||" ;;
    avx2-ct-dbg)   echo "dbg|-C target-feature=+avx2||" ;;
    both-ct)       echo "release|-C target-feature=+sse4.2,+avx2||" ;;
    rt-only)       echo "release|-C target-feature=+sse4.2,+avx2 --cfg hp_rt|CARGO_CFG_HTTPARSE_DISABLE_SIMD_COMPILETIME=1|" ;;
    nostd)         echo "release|||--no-default-features" ;;
    nostd-dbg)     echo "dbg|||--no-default-features" ;;
    *) return 1 ;;
    esac
}

build() {
    local name="$1" s; s=$(spec "$name") || { echo "unknown variant $name" >&2; return 2; }
    IFS='|' read -r profile flags envs cargs <<<"$s"
    local tdir="$SIM/target-$name"; [ "$name" = "rt" ] && tdir="$SIM/target"
    local out
    if ! out=$(cd "$SIM" && env $envs RUSTFLAGS="$HOOKS $flags" cargo build --offline --profile "$profile" --target-dir "$tdir" $cargs 2>&1); then
        echo "$out" | grep -E "^(error|warning: unused)" -A 6 | head -30 >&2
        return 1
    fi
    echo "$tdir/$profile/hpsim"
}

QUICK="rt rt-dbg swar sse42-ct avx2-ct nostd"
ALL="rt rt-dbg swar swar-dbg sse42-ct sse42-ct-dbg avx2-ct avx2-ct-dbg both-ct rt-only nostd nostd-dbg"

case "${1:-}" in
build) build "$2" ;;
build-quick)
    pids=(); for n in $QUICK; do build "$n" >/dev/null & pids+=($!); done
    rc=0; for p in "${pids[@]}"; do wait "$p" || rc=2; done; exit $rc ;;
build-all)
    pids=(); for n in $ALL; do build "$n" >/dev/null & pids+=($!); done
    rc=0; for p in "${pids[@]}"; do wait "$p" || rc=2; done; exit $rc ;;
list) [ "${2:-quick}" = "thorough" ] && echo "$ALL" || echo "$QUICK" ;;
compare)
    plan="$2"; n="$3"; shift 3
    work="$VERIF_DIR/work/variants-$$"; mkdir -p "$work"
    names=("$@"); rc=0
    # build in parallel
    declare -A bins
    for nm in "${names[@]}"; do ( b=$(build "$nm") && echo "$b" > "$work/$nm.bin" ) & done; wait
    for nm in "${names[@]}"; do
        if [ ! -s "$work/$nm.bin" ]; then echo "BUILD-FAILED $nm"; rc=2; else bins[$nm]=$(cat "$work/$nm.bin"); fi
    done
    if [ $rc -ne 0 ]; then rm -rf "$work"; exit 2; fi
    for nm in "${names[@]}"; do ( "${bins[$nm]}" digest "$plan" "$n" > "$work/$nm.dig" 2>/dev/null; echo $? > "$work/$nm.rc" ) & done; wait
    ref="${names[0]}"
    for nm in "${names[@]}"; do
        r=$(cat "$work/$nm.rc")
        if [ "$r" != "0" ]; then echo "RUN-FAILED $nm rc=$r lines=$(wc -l < "$work/$nm.dig")"; rc=1; fi
        [ "$nm" = "$ref" ] && continue
        d=$(diff "$work/$ref.dig" "$work/$nm.dig" | grep '^[<>]' | awk '{print $2}' | sort -n | uniq | head -3 | tr '\n' ' ')
        if [ -n "$d" ]; then echo "MISMATCH $ref $nm runs: $d"; rc=1; fi
    done
    echo "COMPARED plan=$plan runs=$n variants=${names[*]} lines=$(wc -l < "$work/$ref.dig")"
    rm -rf "$work"; exit $rc ;;
lattice)
    # configuration sweep, not simulation: the library must build at every supported switch combination
    work="$VERIF_DIR/work/lattice-$$"; mkdir -p "$work"; fail=0; n=0
    stds=("" "--no-default-features"); [ "${2:-}" = nostd ] && stds=("--no-default-features")
    for std in "${stds[@]}"; do for ds in 0 1; do for dc in 0 1; do for tf in "" "+sse4.2" "+avx2" "+sse4.2,+avx2"; do
        n=$((n+1)); tag="std${std:+no}-ds$ds-dc$dc-tf${tf//[+.,]/}"
        ( envs=""; [ $ds = 1 ] && envs="$envs CARGO_CFG_HTTPARSE_DISABLE_SIMD=1"; [ $dc = 1 ] && envs="$envs CARGO_CFG_HTTPARSE_DISABLE_SIMD_COMPILETIME=1"
          fl="$HOOKS"; [ -n "$tf" ] && fl="$fl -C target-feature=$tf"
          ok=1
          (cd "${VERIF_REPO:-/repo}" && env $envs RUSTFLAGS="$fl" cargo build --offline --lib --target-dir "$work/$tag" $std >"$work/$tag.log" 2>&1) || ok=0
          # the optimized profile compiles code that debug builds cfg out (cfg(not(debug_assertions)))
          if [ $ok = 1 ]; then (cd "${VERIF_REPO:-/repo}" && env $envs RUSTFLAGS="$fl" cargo build --offline --lib --release --target-dir "$work/$tag" $std >>"$work/$tag.log" 2>&1) || ok=0; fi
          if [ $ok = 1 ]; then echo ok > "$work/$tag.res"; else echo fail > "$work/$tag.res"; fi
          rm -rf "$work/$tag" ) &
        if (( n % 8 == 0 )); then wait; fi
    done; done; done; done; wait
    for f in "$work"/*.res; do if [ "$(cat "$f")" != ok ]; then echo "LATTICE-BUILD-FAILED $(basename "$f" .res)"; grep -E "^error" -A 4 "${f%.res}.log" | head -8; fail=1; fi; done
    echo "LATTICE points=$n failed=$fail"
    rm -rf "$work"; exit $fail ;;
*) echo "usage: variants.sh build|build-quick|build-all|compare|lattice" >&2; exit 2 ;;
esac
