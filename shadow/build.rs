fn main() {
    if std::env::var_os("CARGO_FEATURE_STD").is_some() {
        println!("cargo:rustc-cfg=httparse_simd");
    }
}
