#!/bin/bash
# Shared by the grammar / hygiene checks (C05 C06 C07 C08 C10 C14): the property's own seed list
# is replayed by the built variants of the simulator in digest mode; the runtime-detection build
# (which the main run validates against the reference model) must agree with every other build.
# usage: grammar.sh <ID> <tier> <out.json>
source "$(dirname "${BASH_SOURCE[0]}")/lib.sh"
id="$1"; tier="$2"; out="$3"; rc=0
plan=${id#C}; plan=$((10#$plan))
if [ "$tier" = thorough ]; then n=200000; names="rt rt-dbg swar sse42-ct avx2-ct both-ct rt-only nostd"; else n=20000; names="rt rt-dbg swar sse42-ct avx2-ct nostd"; fi
vout=$("$VERIF_DIR/variants.sh" compare "$plan" "$n" $names 2>&1); vrc=$?
echo "$vout" | grep -E "^(COMPARED|MISMATCH|BUILD-FAILED|RUN-FAILED)" | sed "s/^/  [$id variants] /"
if [ $vrc -eq 2 ]; then echo "HARNESS-ERROR variant build failed" >&2; exit 2; fi
if [ $vrc -ne 0 ]; then
    echo "$vout" | grep -E "^(MISMATCH|RUN-FAILED)" | head -3 | while read -r kind a b rest; do
        f="$VERIF_DIR/replays/$id-variants-$SEED-$a-$b.json"
        write_replay "$f" "{\"engine\": \"variants\", \"property\": \"$id\", \"kind\": \"$kind\", \"ref\": \"$a\", \"variant\": \"${b:-$a}\", \"detail\": \"$rest\", \"plan\": $plan, \"runs\": $n, \"verif_seed\": \"$SEED\"}"
        echo "VIOLATION property=$id replay=$f"
    done
    rc=1
fi
echo "{\"variants_compared_on_this_plan\": \"$names\", \"variant_runs_each\": $n}" > "$out"
exit $rc
