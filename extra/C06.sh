#!/bin/bash
exec "$(dirname "${BASH_SOURCE[0]}")/grammar.sh" C06 "$@"
