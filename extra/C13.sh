#!/bin/bash
# C13 engines beyond the per-call backend/placement flips done by hpsim itself:
#   (2) built variants replaying the same seeds, (3) cold-start race under shuttle and Miri,
#   thorough: all variants + the 32-point build lattice.
source "$(dirname "${BASH_SOURCE[0]}")/lib.sh"
tier="$1"; out="$2"; rc=0
if [ "$tier" = thorough ]; then names=$("$VERIF_DIR/variants.sh" list thorough); n=60000; iters=200000; mseeds=64; else names=$("$VERIF_DIR/variants.sh" list quick); n=6000; iters=20000; mseeds=8; fi

# ---- built variants
vout=$("$VERIF_DIR/variants.sh" compare 0 "$n" $names 2>&1); vrc=$?
echo "$vout" | grep -E "^(COMPARED|MISMATCH|BUILD-FAILED|RUN-FAILED)" | sed 's/^/  [C13 variants] /'
nvar=$(echo $names | wc -w)
if [ $vrc -ne 0 ]; then
    echo "$vout" | grep -E "^(MISMATCH|BUILD-FAILED|RUN-FAILED)" | head -4 | while read -r kind a b rest; do
        f="$VERIF_DIR/replays/C13-variants-$SEED-$a-$b.json"
        write_replay "$f" "{\"engine\": \"variants\", \"property\": \"C13\", \"kind\": \"$kind\", \"ref\": \"$a\", \"variant\": \"$b\", \"detail\": \"$rest\", \"plan\": 0, \"runs\": $n, \"verif_seed\": \"$SEED\"}"
        echo "VIOLATION property=C13 replay=$f"
    done
    rc=1
fi

# ---- cold-start race under shuttle
tb="$VERIF_DIR/threads/target/release/hpsim-threads"
if ! (cd "$VERIF_DIR/threads" && RUSTFLAGS="$HOOKS" cargo build --offline --release >/dev/null 2>&1); then echo "HARNESS-ERROR hpsim-threads does not build" >&2; exit 2; fi
sdir="$VERIF_DIR/work/shuttle-$$"; rm -rf "$sdir"
sout=$("$tb" run "$SEED" "$iters" "$sdir" 2>/dev/null); src=$?
echo "$sout" | grep -E "^COLDSTART" | sed 's/^/  [C13 shuttle] /'
if [ $src -ne 0 ]; then
    sf=$(ls "$sdir"/* 2>/dev/null | head -1)
    if [ -n "$sf" ]; then
        cp "$sf" "$VERIF_DIR/replays/C13-coldstart-$SEED.schedule"
        f="$VERIF_DIR/replays/C13-coldstart-$SEED.json"
        write_replay "$f" "{\"engine\": \"shuttle\", \"property\": \"C13\", \"schedule_file\": \"$VERIF_DIR/replays/C13-coldstart-$SEED.schedule\", \"detail\": \"$(echo "$sout" | grep COLDSTART-VIOLATION | head -1 | tr -d '"\\' | cut -c1-300)\"}"
        echo "VIOLATION property=C13 replay=$f"; rc=1
    else
        echo "HARNESS-ERROR shuttle run failed without a schedule file" >&2; rm -rf "$sdir"; exit 2
    fi
fi
rm -rf "$sdir"
sched=$(echo "$sout" | sed -n 's/.*schedules=\([0-9]*\).*/\1/p'); conc=$(echo "$sout" | sed -n 's/.*max_concurrent_detections=\([0-9]*\).*/\1/p')

# ---- cold-start race with real threads under Miri (shadow manifest: SIMD stays on)
mout=$(run_miri "$VERIF_DIR/sim-shadow" "--cfg hp_rt -C target-feature=+sse4.2,+avx2" "-Zmiri-many-seeds=0..$mseeds -Zmiri-preemption-rate=0.1" miri-threads 4)
mok=$(echo "$mout" | grep -c "^MIRI-THREADS ok")
if echo "$mout" | grep -qE "^error: Undefined Behavior|^MIRI-VIOLATION"; then
    f="$VERIF_DIR/replays/C13-miri-threads-$SEED.json"
    write_replay "$f" "{\"engine\": \"miri\", \"property\": \"C13\", \"manifest\": \"sim-shadow\", \"rustflags\": \"--cfg hp_rt -C target-feature=+sse4.2,+avx2\", \"miriflags\": \"-Zmiri-many-seeds=0..$mseeds -Zmiri-preemption-rate=0.1\", \"args\": \"miri-threads 4\", \"detail\": \"$(echo "$mout" | grep -E '^error: Undefined|^MIRI-VIOLATION' | head -1 | tr -d '"\\' | cut -c1-300)\"}"
    echo "VIOLATION property=C13 replay=$f"; rc=1
elif [ "$mok" -eq 0 ]; then
    echo "HARNESS-ERROR Miri thread race did not run: $(echo "$mout" | grep -E '^error' | head -2)" >&2; exit 2
fi
echo "  [C13 miri] thread-race seeds ok=$mok"

lat=""
if [ "$tier" = thorough ]; then
    lout=$("$VERIF_DIR/variants.sh" lattice 2>&1); lrc=$?
    echo "$lout" | grep -E "^LATTICE" | sed 's/^/  [C13 lattice] /'
    if [ $lrc -ne 0 ]; then
        f="$VERIF_DIR/replays/C13-lattice-$SEED.json"
        write_replay "$f" "{\"engine\": \"lattice\", \"property\": \"C13\", \"detail\": \"$(echo "$lout" | grep LATTICE-BUILD-FAILED | head -3 | tr '\n' ' ' | tr -d '"\\')\"}"
        echo "VIOLATION property=C13 replay=$f"; rc=1
    fi
    lat=", \"build_lattice_points\": 32, \"build_lattice_note\": \"configuration sweep, not simulation\""
fi
cat > "$out" <<J
{"variants_compared": "$names", "variants_count": $nvar, "variant_runs_each": $n, "shuttle_schedules": ${sched:-0}, "shuttle_max_concurrent_detections": ${conc:-0}, "shuttle_schedulers": "RandomScheduler + PctScheduler(depth 3), seed from VERIF_SEED", "miri_thread_race_seeds_ok": $mok$lat}
J
exit $rc
