#!/bin/bash
# C01 engines beyond the release-profile simulator: the debug-assertions build of the simulator
# (debug_assert!s of iter.rs and overflow checks live on every simulated input) and a Miri batch.
source "$(dirname "${BASH_SOURCE[0]}")/lib.sh"
tier="$1"; out="$2"; rc=0
if [ "$tier" = thorough ]; then scale=0.25; mruns=96; else scale=0.3; mruns=8; fi
bin=$("$VERIF_DIR/variants.sh" build rt-dbg) || { echo "HARNESS-ERROR debug-profile variant does not build" >&2; exit 2; }
tmp="$VERIF_DIR/work/C01-dbg-$$.json"
dout=$(VERIF_SCALE=$scale VERIF_EVIDENCE_OUT="$tmp" VERIF_VARIANT=rt-dbg "$bin" check C01 "$tier" 2>&1); drc=$?
echo "$dout" | grep -E "^\s+(runs=|\[C01\])" | sed 's/^ */  [C01 debug-profile] /' | cut -c1-400
echo "$dout" | grep -E "^VIOLATION" 
[ $drc -eq 1 ] && rc=1
[ $drc -eq 2 ] && [ $rc -eq 0 ] && { echo "HARNESS-ERROR debug-profile run failed" >&2; exit 2; }
dcalls=$(sed -n 's/.*"parse_calls_total": \([0-9]*\).*/\1/p' "$tmp" | head -1); rm -f "$tmp"
# the other built variants (code that only exists at their cfg-lattice points) run a slice of the plan
for vname in sse42-ct avx2-ct swar nostd; do
    vbin=$("$VERIF_DIR/variants.sh" build $vname) || { echo "HARNESS-ERROR variant $vname does not build" >&2; exit 2; }
    vtmp="$VERIF_DIR/work/C01-$vname-$$.json"
    vout=$(VERIF_SCALE=0.08 VERIF_EVIDENCE_OUT="$vtmp" VERIF_VARIANT=$vname "$vbin" check C01 "$tier" 2>&1); vrc=$?
    echo "$vout" | grep -E "^\s+(runs=|\[C01\])" | sed "s/^ */  [C01 $vname] /" | cut -c1-260
    echo "$vout" | grep -E "^VIOLATION"
    [ $vrc -eq 1 ] && rc=1
    [ $vrc -eq 2 ] && [ $rc -eq 0 ] && { echo "HARNESS-ERROR variant $vname run failed" >&2; exit 2; }
    rm -f "$vtmp"
done
# Miri batch (crate as is: SWAR under Miri)
mout=$(MIRI_TIMEOUT=$([ "$tier" = thorough ] && echo 6000 || echo 1500) run_miri "$VERIF_DIR/sim" "" "" miri C01 0 "$mruns" "$SEED")
mline=$(echo "$mout" | grep -E "^MIRI-CONN" | head -1)
echo "  [C01 miri] $mline"
if echo "$mout" | grep -qE "^error: Undefined Behavior|^MIRI-VIOLATION"; then
    f="$VERIF_DIR/replays/C01-miri-$SEED.json"
    write_replay "$f" "{\"engine\": \"miri\", \"property\": \"C01\", \"manifest\": \"sim\", \"rustflags\": \"\", \"miriflags\": \"\", \"args\": \"miri C01 0 $mruns $SEED\", \"detail\": \"$(echo "$mout" | grep -E '^error: Undefined|^MIRI-VIOLATION' | head -1 | tr -d '"\\' | cut -c1-300)\"}"
    echo "VIOLATION property=C01 replay=$f"; rc=1
elif [ -z "$mline" ] && [ $rc -ne 0 ]; then
    echo "  [C01 miri] batch did not finish (the native engines already reported a violation)"
elif [ -z "$mline" ]; then
    echo "HARNESS-ERROR Miri batch did not run: $(echo "$mout" | grep -E '^error' | head -2)" >&2; exit 2
fi
mcalls=$(echo "$mline" | sed -n 's/.*calls=\([0-9]*\).*/\1/p')
msimd=0
if [ "$tier" = thorough ]; then
    # same batch with SIMD kept on under Miri through the shadow manifest
    sout=$(run_miri "$VERIF_DIR/sim-shadow" "--cfg hp_rt -C target-feature=+sse4.2,+avx2" "" miri C01 0 48 "$SEED")
    sline=$(echo "$sout" | grep -E "^MIRI-CONN" | head -1); echo "  [C01 miri+simd] $sline"
    if echo "$sout" | grep -qE "^error: Undefined Behavior|^MIRI-VIOLATION"; then
        f="$VERIF_DIR/replays/C01-miri-simd-$SEED.json"
        write_replay "$f" "{\"engine\": \"miri\", \"property\": \"C01\", \"manifest\": \"sim-shadow\", \"rustflags\": \"--cfg hp_rt -C target-feature=+sse4.2,+avx2\", \"miriflags\": \"\", \"args\": \"miri C01 0 48 $SEED\", \"detail\": \"$(echo "$sout" | grep -E '^error: Undefined|^MIRI-VIOLATION' | head -1 | tr -d '"\\' | cut -c1-300)\"}"
        echo "VIOLATION property=C01 replay=$f"; rc=1
    fi
    msimd=$(echo "$sline" | sed -n 's/.*calls=\([0-9]*\).*/\1/p')
fi
echo "{\"debug_profile_variant_parse_calls\": ${dcalls:-0}, \"miri_runs\": $mruns, \"miri_checked_calls\": ${mcalls:-0}, \"miri_simd_checked_calls\": ${msimd:-0}}" > "$out"
exit $rc
