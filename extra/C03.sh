#!/bin/bash
exec "$(dirname "${BASH_SOURCE[0]}")/profiles.sh" C03 "$@"
