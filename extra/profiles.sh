#!/bin/bash
# Shared by the differential checks (C02 C03 C04 C11 C15 C16 C17 C18): a share of the property's
# runs is repeated by the debug-assertions build of the simulator, where debug_assert!s, overflow
# checks and cfg!(debug_assertions) branches of the crate are live (a panic in any re-issued call
# is a differing result).   usage: profiles.sh <ID> <tier> <out.json>
source "$(dirname "${BASH_SOURCE[0]}")/lib.sh"
id="$1"; tier="$2"; out="$3"; rc=0
bin=$("$VERIF_DIR/variants.sh" build rt-dbg) || { echo "HARNESS-ERROR debug-profile variant does not build" >&2; exit 2; }
tmp="$VERIF_DIR/work/$id-dbg-$$.json"
dout=$(VERIF_SCALE=0.2 VERIF_EVIDENCE_OUT="$tmp" VERIF_VARIANT=rt-dbg "$bin" check "$id" "$tier" 2>&1); drc=$?
echo "$dout" | grep -E "^\s+(runs=|\[$id\])" | sed "s/^ */  [$id debug-profile] /" | cut -c1-300
echo "$dout" | grep -E "^VIOLATION"
[ $drc -eq 1 ] && rc=1
[ $drc -eq 2 ] && { echo "HARNESS-ERROR debug-profile run failed" >&2; exit 2; }
dcalls=$(sed -n 's/.*"parse_calls_total": \([0-9]*\).*/\1/p' "$tmp" | head -1); rm -f "$tmp"
echo "{\"debug_profile_variant_parse_calls\": ${dcalls:-0}}" > "$out"
exit $rc
