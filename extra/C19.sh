#!/bin/bash
# C19 build half: the --no-default-features build (no std feature) of crate + simulator replays
# part of the seed list with the allocator seam armed.
source "$(dirname "${BASH_SOURCE[0]}")/lib.sh"
tier="$1"; out="$2"; rc=0
bin=$("$VERIF_DIR/variants.sh" build nostd) || {
    f="$VERIF_DIR/replays/C19-nostd-build-$SEED.json"
    write_replay "$f" "{\"engine\": \"variants\", \"property\": \"C19\", \"kind\": \"BUILD-FAILED\", \"ref\": \"nostd\", \"variant\": \"nostd\", \"plan\": 19, \"runs\": 1, \"detail\": \"the crate does not build with the std feature disabled\"}"
    echo "VIOLATION property=C19 replay=$f"; echo '{"nostd_variant": "build failed"}' > "$out"; exit 1; }
tmp="$VERIF_DIR/work/C19-nostd-$$.json"
dout=$(VERIF_SCALE=0.3 VERIF_EVIDENCE_OUT="$tmp" VERIF_VARIANT=nostd "$bin" check C19 "$tier" 2>&1); drc=$?
echo "$dout" | grep -E "^\s+(runs=|\[C19\])" | sed 's/^ */  [C19 no_std variant] /' | cut -c1-300
echo "$dout" | grep -E "^VIOLATION"
[ $drc -eq 1 ] && rc=1
[ $drc -eq 2 ] && { echo "HARNESS-ERROR no_std variant run failed" >&2; exit 2; }
dcalls=$(sed -n 's/.*"parse_calls_total": \([0-9]*\).*/\1/p' "$tmp" | head -1); rm -f "$tmp"
# "with the std feature disabled the crate builds": all 16 no_std points of the switch lattice
# (2 SIMD-disable switches x 4 target-feature sets) must build — a configuration sweep, not simulation
lout=$("$VERIF_DIR/variants.sh" lattice nostd 2>&1); lrc=$?
echo "$lout" | grep -E "^LATTICE" | sed 's/^/  [C19 no_std builds] /'
if [ $lrc -ne 0 ]; then
    f="$VERIF_DIR/replays/C19-nostd-lattice-$SEED.json"
    write_replay "$f" "{\"engine\": \"lattice\", \"property\": \"C19\", \"filter\": \"nostd\", \"detail\": \"$(echo "$lout" | grep LATTICE-BUILD-FAILED | head -3 | tr '\n' ' ' | tr -d '"\\')\"}"
    echo "VIOLATION property=C19 replay=$f"; rc=1
fi
echo "{\"nostd_variant_parse_calls\": ${dcalls:-0}, \"nostd_variant\": \"builds with --no-default-features and never allocates on the replayed seeds\", \"nostd_lattice_points_built\": 16}" > "$out"
exit $rc
