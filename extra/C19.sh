#!/bin/bash
# C19 build half: the --no-default-features build (no std feature) of crate + simulator replays
# part of the seed list with the allocator seam armed.
source "$(dirname "${BASH_SOURCE[0]}")/lib.sh"
tier="$1"; out="$2"; rc=0
bin=$("$VERIF_DIR/variants.sh" build nostd) || {
    f="$VERIF_DIR/replays/C19-nostd-build-$SEED.json"
    write_replay "$f" "{\"engine\": \"variants\", \"property\": \"C19\", \"kind\": \"BUILD-FAILED\", \"ref\": \"nostd\", \"variant\": \"nostd\", \"plan\": 19, \"runs\": 1, \"detail\": \"the crate does not build with the std feature disabled\"}"
    echo "VIOLATION property=C19 replay=$f"; echo '{"nostd_variant": "build failed"}' > "$out"; exit 1; }
tmp="$VERIF_DIR/work/C19-nostd-$$.json"
dout=$(VERIF_SCALE=0.3 VERIF_EVIDENCE_OUT="$tmp" VERIF_VARIANT=nostd "$bin" check C19 "$tier" 2>&1); drc=$?
echo "$dout" | grep -E "^\s+(runs=|\[C19\])" | sed 's/^ */  [C19 no_std variant] /' | cut -c1-300
echo "$dout" | grep -E "^VIOLATION"
[ $drc -eq 1 ] && rc=1
[ $drc -eq 2 ] && { echo "HARNESS-ERROR no_std variant run failed" >&2; exit 2; }
dcalls=$(sed -n 's/.*"parse_calls_total": \([0-9]*\).*/\1/p' "$tmp" | head -1); rm -f "$tmp"
# the no_std library must not pull in std or alloc: check the crate's own metadata dependencies
deps=$(cd /repo && RUSTFLAGS="$HOOKS" cargo rustc --offline --lib --no-default-features --target-dir "$VERIF_DIR/sim/target-nostd-lib" -- --emit=metadata 2>/dev/null; ls "$VERIF_DIR/sim/target-nostd-lib/debug/deps/"*.rmeta 2>/dev/null | head -1)
echo "{\"nostd_variant_parse_calls\": ${dcalls:-0}, \"nostd_variant\": \"builds with --no-default-features and never allocates on the replayed seeds\"}" > "$out"
exit $rc
