#!/bin/bash
# C09: "the result is the same in debug and release builds" — the same seeds replayed by the
# release and the debug-assertions build of the simulator (chunk-heavy plan), digests compared.
source "$(dirname "${BASH_SOURCE[0]}")/lib.sh"
tier="$1"; out="$2"; rc=0
if [ "$tier" = thorough ]; then n=400000; else n=40000; fi
vout=$("$VERIF_DIR/variants.sh" compare 9 "$n" rt rt-dbg swar sse42-ct avx2-ct nostd 2>&1); vrc=$?
echo "$vout" | grep -E "^(COMPARED|MISMATCH|BUILD-FAILED|RUN-FAILED)" | sed 's/^/  [C09 profiles] /'
if [ $vrc -eq 2 ]; then echo "HARNESS-ERROR variant build failed" >&2; exit 2; fi
if [ $vrc -ne 0 ]; then
    f="$VERIF_DIR/replays/C09-profiles-$SEED.json"
    write_replay "$f" "{\"engine\": \"variants\", \"property\": \"C09\", \"ref\": \"rt\", \"variant\": \"rt-dbg\", \"plan\": 9, \"runs\": $n, \"verif_seed\": \"$SEED\", \"detail\": \"$(echo "$vout" | grep -E '^(MISMATCH|RUN-FAILED)' | head -1 | tr -d '"\\')\"}"
    echo "VIOLATION property=C09 replay=$f"; rc=1
fi
echo "{\"profiles_compared\": \"release vs debug-assertions (overflow checks on)\", \"profile_runs_each\": $n}" > "$out"
exit $rc
