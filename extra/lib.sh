# helpers for the property-specific engines
VERIF_DIR="$(cd "$(dirname "${BASH_SOURCE[0]}")/.." && pwd)"
export VERIF_DIR CARGO_NET_OFFLINE=true
SEED="${VERIF_SEED:-20261004}"
mkdir -p "$VERIF_DIR/work" "$VERIF_DIR/replays"
HOOKS="--cfg httparse_verif"

# run_miri <manifest-dir> <rustflags> <miriflags> <args...>  -> stdout of the program + miri errors
run_miri() {
    local dir="$1" flags="$2" mflags="$3"; shift 3
    (cd "$dir" && MIRIFLAGS="-Zmiri-disable-isolation $mflags" RUSTFLAGS="$HOOKS $flags" \
        timeout "${MIRI_TIMEOUT:-1500}" cargo +nightly miri run --offline --target-dir "$dir/target-miri" -- "$@" 2>&1)
}

# write_replay <file> <json>
write_replay() { printf '%s\n' "$2" > "$1"; }
