#!/bin/bash
# C20 instruction-count clock: one parse of an adversarial-family input of size N and of size 4N,
# each run under valgrind's cachegrind (exact, deterministic instruction counts), minus a baseline
# run that does everything but the parse call. Linear work => ratio ~4; a re-scan per fold or
# ignored line is quadratic => ratio -> 16. The bound is 6. Unlike hook H2 this clock also sees
# work done outside the Bytes cursor (slices, iterators, memchr-style searches).
source "$(dirname "${BASH_SOURCE[0]}")/lib.sh"
tier="$1"; out="$2"; rc=0
bin="$VERIF_DIR/sim/target/release/hpsim"
[ -x "$bin" ] || { echo "HARNESS-ERROR simulator binary missing" >&2; exit 2; }
command -v valgrind >/dev/null || { echo "HARNESS-ERROR valgrind not available" >&2; exit 2; }
if [ "$tier" = thorough ]; then sizes="16384 65536 262144 1048576"; else sizes="16384 65536"; fi
work="$VERIF_DIR/work/c20-$$"; mkdir -p "$work"
ir() { # fam size mode
    timeout 300 valgrind --tool=cachegrind --cache-sim=no --cachegrind-out-file=/dev/null "$bin" work "$1" "$2" $3 2>&1 | sed -n 's/.*I *refs: *\([0-9,]*\).*/\1/p' | tr -d ','
}
nf=24; n=0
for f in $(seq 0 $((nf-1))); do for s in $sizes; do
    ( ir $f $s "" > "$work/$f-$s.p"; ir $f $s skip > "$work/$f-$s.b" ) &
    n=$((n+1)); if (( n % 8 == 0 )); then wait; fi
done; done; wait
worst=0; worstfam=""; rows=""
for f in $(seq 0 $((nf-1))); do
    prev=""; prevs=""
    for s in $sizes; do
        p=$(cat "$work/$f-$s.p"); b=$(cat "$work/$f-$s.b")
        if [ -z "$p" ] || [ -z "$b" ]; then
            # a timeout under valgrind at these sizes is itself super-linear work (normal: < 2 s)
            f2="$VERIF_DIR/replays/C20-icount-$SEED-f$f.json"
            write_replay "$f2" "{\"engine\": \"icount\", \"property\": \"C20\", \"family\": $f, \"sizes\": \"$sizes\", \"detail\": \"no instruction count for family $f size $s (timeout after 300 s or crash)\"}"
            echo "VIOLATION property=C20 replay=$f2"; rc=1; continue 2
        fi
        c=$((p-b)); [ $c -lt 1 ] && c=1
        if [ -n "$prev" ]; then
            ratio100=$(( c * 100 / prev ))
            rows="$rows{\"family\": $f, \"n\": $prevs, \"cost_n\": $prev, \"cost_4n\": $c, \"ratio_x100\": $ratio100}, "
            [ $ratio100 -gt $worst ] && { worst=$ratio100; worstfam=$f; }
            if [ $ratio100 -gt 600 ]; then
                f2="$VERIF_DIR/replays/C20-icount-$SEED-f$f.json"
                write_replay "$f2" "{\"engine\": \"icount\", \"property\": \"C20\", \"family\": $f, \"sizes\": \"$sizes\", \"detail\": \"parse of family $f costs $prev instructions at $prevs bytes and $c at $s bytes: ratio $ratio100/100 > 6 for 4x the input\"}"
                echo "  [C20 icount] family $f: $prev instr @ $prevs B, $c instr @ $s B (x$((ratio100/100)).$((ratio100%100)))"
                echo "VIOLATION property=C20 replay=$f2"; rc=1
            fi
        fi
        prev=$c; prevs=$s
    done
done
echo "  [C20 icount] families=$nf sizes=($sizes) worst ratio for 4x input = $((worst/100)).$(printf '%02d' $((worst%100))) (family $worstfam; linear = 4, bound 6)"
echo "{\"instruction_clock\": \"valgrind cachegrind I refs of one parse call minus a no-parse baseline\", \"instruction_clock_families\": $nf, \"instruction_clock_sizes\": \"$sizes\", \"instruction_clock_worst_ratio_x100\": $worst, \"instruction_clock_rows\": [${rows%, }]}" > "$out"
rm -rf "$work"
exit $rc
