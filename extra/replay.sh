#!/bin/bash
# replay of violations found by the non-hpsim engines (variants, shuttle, Miri, icount)
    tmp="$VERIF_DIR/work/replay-icount-$$.json"
    "$VERIF_DIR/extra/C20.sh" quick "$tmp" | grep -E "icount|VIOLATION"; rc=${PIPESTATUS[0]}; rm -f "$tmp"
    [ $rc -eq 1 ] && { echo "VIOLATION-REPRODUCED property=C20 engine=icount"; exit 1; }; exit $rc ;;
lattice)
source "$(dirname "${BASH_SOURCE[0]}")/lib.sh"
f="$1"
get() { sed -n "s/.*\"$1\": *\"\([^\"]*\)\".*/\1/p" "$f" | head -1; }
getn() { sed -n "s/.*\"$1\": *\([0-9]*\).*/\1/p" "$f" | head -1; }
case "$(get engine)" in
variants)
    export VERIF_SEED="$(get verif_seed)"; [ -z "$VERIF_SEED" ] && unset VERIF_SEED
    out=$("$VERIF_DIR/variants.sh" compare "$(getn plan)" "$(getn runs)" "$(get ref)" "$(get variant)" 2>&1); rc=$?
    echo "$out" | grep -E "^(COMPARED|MISMATCH|BUILD-FAILED|RUN-FAILED)"
    if [ $rc -ne 0 ]; then echo "VIOLATION-REPRODUCED property=$(get property) engine=variants"; exit 1; fi
    echo "no violation reproduced"; exit 0 ;;
shuttle)
    (cd "$VERIF_DIR/threads" && RUSTFLAGS="$HOOKS" cargo build --offline --release >/dev/null 2>&1) || exit 2
    "$VERIF_DIR/threads/target/release/hpsim-threads" replay "$(get schedule_file)" 2>/dev/null; exit $? ;;
miri)
    out=$(run_miri "$VERIF_DIR/$(get manifest)" "$(get rustflags)" "$(get miriflags)" $(get args))
    echo "$out" | grep -E "^error: Undefined Behavior|^MIRI" -A 6 | head -30
    if echo "$out" | grep -qE "^error: Undefined Behavior|^MIRI-VIOLATION"; then echo "VIOLATION-REPRODUCED property=$(get property) engine=miri"; exit 1; fi
    echo "no violation reproduced"; exit 0 ;;
icount)
    tmp="$VERIF_DIR/work/replay-icount-$$.json"
    "$VERIF_DIR/extra/C20.sh" quick "$tmp" | grep -E "icount|VIOLATION"; rc=${PIPESTATUS[0]}; rm -f "$tmp"
    [ $rc -eq 1 ] && { echo "VIOLATION-REPRODUCED property=C20 engine=icount"; exit 1; }; exit $rc ;;
lattice)
    "$VERIF_DIR/variants.sh" lattice $(get filter); rc=$?; [ $rc -ne 0 ] && { echo "VIOLATION-REPRODUCED property=$(get property) engine=lattice"; exit 1; }; exit 0 ;;
*) echo "unknown engine in $f" >&2; exit 2 ;;
esac
