#!/bin/bash
# Single entry point of the httparse verification machinery (see DESIGN.md §9).
#   ./v setup                       build everything offline from files on disk
#   ./v check <C01..C20> <quick|thorough>
#   ./v replay <file>
#   ./v selftest determinism|sensitivity
# Exit codes: 0 property held on everything explored; 1 violation (VIOLATION line printed);
#             2 harness error (build failure of the simulator, worker protocol error, ...).
set -u
VERIF_DIR="$(cd "$(dirname "${BASH_SOURCE[0]}")" && pwd)"
export VERIF_DIR
export CARGO_NET_OFFLINE=true
SIM="$VERIF_DIR/sim"
HOOKS="--cfg httparse_verif"

# build one variant of the simulator; prints the path of the binary
#   $1 name  $2 cargo profile (release|dbg)  $3 extra RUSTFLAGS  $4 extra env (VAR=VAL ...)  $5 cargo args
build_variant() {
    local name="$1" profile="$2" flags="$3" envs="$4" cargs="${5:-}"
    local tdir="$SIM/target-$name"
    [ "$name" = "rt" ] && tdir="$SIM/target"
    local out
    if ! out=$(cd "$SIM" && env $envs RUSTFLAGS="$HOOKS $flags" cargo build --offline --profile "$profile" --target-dir "$tdir" $cargs 2>&1); then
        echo "$out" | tail -40 >&2
        return 1
    fi
    local sub="$profile"
    echo "$tdir/$sub/hpsim"
}

main_bin() {
    build_variant rt release "--cfg hp_rt" "" ""
}

cmd="${1:-}"
case "$cmd" in
setup)
    main_bin >/dev/null || { echo "HARNESS-ERROR: simulator build failed" >&2; exit 2; }
    if [ -x "$VERIF_DIR/variants.sh" ]; then "$VERIF_DIR/variants.sh" build-quick || exit 2; fi
    if [ -d "$VERIF_DIR/threads" ]; then (cd "$VERIF_DIR/threads" && RUSTFLAGS="$HOOKS" cargo build --offline --release >/dev/null 2>&1) || { echo "HARNESS-ERROR: hpsim-threads build failed" >&2; exit 2; }; fi
    # Miri engine: build its sysroot and both interpreted builds once, so quick checks do not pay for it
    (cd "$SIM" && MIRIFLAGS="-Zmiri-disable-isolation" RUSTFLAGS="$HOOKS" cargo +nightly miri run --offline --target-dir "$SIM/target-miri" -- miri C01 0 0 >/dev/null 2>&1) || echo "warning: Miri engine (sim) did not build" >&2
    (cd "$VERIF_DIR/sim-shadow" && MIRIFLAGS="-Zmiri-disable-isolation" RUSTFLAGS="$HOOKS --cfg hp_rt -C target-feature=+sse4.2,+avx2" cargo +nightly miri run --offline --target-dir "$VERIF_DIR/sim-shadow/target-miri" -- miri C01 0 0 >/dev/null 2>&1) || echo "warning: Miri engine (sim-shadow) did not build" >&2
    echo "setup ok"
    ;;
check)
    id="${2:?property id}"; tier="${3:-${VERIF_TIER:-quick}}"
    bin=$(main_bin) || { echo "HARNESS-ERROR: simulator does not build against /repo's working tree (with $HOOKS)" >&2; exit 2; }
    extra=""
    rc_extra=0
    if [ -x "$VERIF_DIR/extra/$id.sh" ]; then
        # property-specific engines (built variants, shuttle, Miri): they print their own
        # VIOLATION lines and write a JSON fragment merged into the evidence file
        extra="$VERIF_DIR/work/extra-$id-$$.json"
        mkdir -p "$VERIF_DIR/work"
        "$VERIF_DIR/extra/$id.sh" "$tier" "$extra"; rc_extra=$?
        export VERIF_EXTRA_EVIDENCE="$extra"
    fi
    "$bin" check "$id" "$tier"; rc=$?
    [ -n "$extra" ] && rm -f "$extra"
    if [ $rc -eq 2 ] || [ $rc_extra -eq 2 ]; then exit 2; fi
    if [ $rc -ne 0 ] || [ $rc_extra -ne 0 ]; then exit 1; fi
    exit 0
    ;;
replay)
    f="${2:?replay file}"
    if grep -q '"engine"' "$f" 2>/dev/null && [ -x "$VERIF_DIR/extra/replay.sh" ]; then exec "$VERIF_DIR/extra/replay.sh" "$f"; fi
    # a violation found by another built variant of the simulator is replayed by that variant
    variant=$(sed -n 's/.*"variant": *"\([^"]*\)".*/\1/p' "$f" | head -1)
    if [ -n "$variant" ] && [ "$variant" != rt ]; then
        bin=$("$VERIF_DIR/variants.sh" build "$variant") || exit 2
    else
        bin=$(main_bin) || exit 2
    fi
    exec "$bin" replay "$f"
    ;;
selftest)
    exec "$VERIF_DIR/selftest.sh" "${2:-determinism}"
    ;;
*)
    echo "usage: ./v setup | check <ID> <quick|thorough> | replay <file> | selftest determinism|sensitivity" >&2
    exit 2
    ;;
esac
