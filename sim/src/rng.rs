//! SplitMix64: the only source of randomness in the simulator. One integer decides everything.

#[derive(Clone, Debug)]
pub struct Rng(pub u64);

#[inline]
pub fn mix(mut z: u64) -> u64 {
    z = z.wrapping_add(0x9E37_79B9_7F4A_7C15);
    z = (z ^ (z >> 30)).wrapping_mul(0xBF58_476D_1CE4_E5B9);
    z = (z ^ (z >> 27)).wrapping_mul(0x94D0_49BB_1331_11EB);
    z ^ (z >> 31)
}

/// Per-run seed: a pure function of (VERIF_SEED, check tag, run index).
pub fn run_seed(verif_seed: u64, tag: u64, index: u64) -> u64 {
    mix(mix(mix(verif_seed) ^ tag.wrapping_mul(0xA24B_AED4_963E_E407)) ^ index.wrapping_mul(0x9FB2_1C65_1E98_DF25))
}

pub fn tag_of(s: &str) -> u64 {
    let mut h: u64 = 0xcbf2_9ce4_8422_2325;
    for b in s.bytes() {
        h ^= b as u64;
        h = h.wrapping_mul(0x0000_0100_0000_01B3);
    }
    h
}

impl Rng {
    pub fn new(seed: u64) -> Rng {
        Rng(seed)
    }
    /// Independent sub-stream (workload / faults / schedule / knobs ...), so that drawing more
    /// from one stream never shifts another.
    pub fn split(&self, stream: u64) -> Rng {
        Rng(mix(self.0 ^ mix(stream.wrapping_mul(0xD6E8_FEB8_6659_FD93))))
    }
    #[inline]
    pub fn next(&mut self) -> u64 {
        self.0 = self.0.wrapping_add(0x9E37_79B9_7F4A_7C15);
        let mut z = self.0;
        z = (z ^ (z >> 30)).wrapping_mul(0xBF58_476D_1CE4_E5B9);
        z = (z ^ (z >> 27)).wrapping_mul(0x94D0_49BB_1331_11EB);
        z ^ (z >> 31)
    }
    /// Uniform in 0..n (n > 0).
    #[inline]
    pub fn below(&mut self, n: usize) -> usize {
        debug_assert!(n > 0);
        (self.next() % n as u64) as usize
    }
    /// Uniform in lo..=hi.
    #[inline]
    pub fn range(&mut self, lo: usize, hi: usize) -> usize {
        lo + self.below(hi - lo + 1)
    }
    #[inline]
    pub fn chance(&mut self, num: u64, den: u64) -> bool {
        self.next() % den < num
    }
    #[inline]
    pub fn pick<'a, T>(&mut self, xs: &'a [T]) -> &'a T {
        &xs[self.below(xs.len())]
    }
    #[inline]
    pub fn byte(&mut self) -> u8 {
        self.next() as u8
    }
}
