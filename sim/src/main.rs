//! hpsim — deterministic simulation with fault injection for httparse (see /verif/DESIGN.md).

mod alloc;
mod arena;
mod check;
mod exec;
mod gen;
mod json;
mod minimise;
mod model;
mod plan;
mod rng;
mod sut;
mod trace;

use check::{pname, Violation, NPROPS};
use exec::{Exec, Stats};
use json::J;
use std::collections::BTreeMap;
use std::io::{BufRead, BufReader, Write};
use std::process::{Command, Stdio};
use trace::Trace;

#[global_allocator]
static GLOBAL: alloc::Counting = alloc::Counting;

const DEFAULT_SEED: u64 = 20261004;

fn verif_seed() -> u64 {
    std::env::var("VERIF_SEED").ok().and_then(|s| s.trim().parse::<u64>().ok()).unwrap_or(DEFAULT_SEED)
}
fn jobs() -> usize {
    std::env::var("VERIF_JOBS").ok().and_then(|s| s.parse().ok()).unwrap_or(16).max(1)
}
fn verif_dir() -> String {
    std::env::var("VERIF_DIR").unwrap_or_else(|_| "/verif".to_string())
}

pub fn execute(arena: &mut arena::Arena, stats: &mut Stats, t: &Trace, mask: u32, log: bool) -> (Vec<Violation>, Option<Vec<String>>) {
    arena.reset();
    let mut e = Exec::new(arena, stats, t, mask, log);
    e.run();
    let v = std::mem::take(&mut e.viol);
    let l = e.log.take();
    (v, l)
}

fn main() {
    let args: Vec<String> = std::env::args().collect();
    if std::env::var("VERIF_PANICS").is_err() {
        std::panic::set_hook(Box::new(|_| {}));
    }
    let cmd = args.get(1).map(|s| s.as_str()).unwrap_or("");
    let code = match cmd {
        "worker" => worker(&args[2..]),
        "check" => check_cmd(&args[2..]),
        "replay" => replay(&args[2..]),
        "dump" => dump(&args[2..]),
        "digest" => digest(&args[2..]),
        "minimise" => minimise_cmd(&args[2..]),
        "work" => work_cmd(&args[2..]),
        "miri" => miri_cmd(&args[2..]),
        "miri-threads" => miri_threads(&args[2..]),
        _ => {
            eprintln!("usage: hpsim check <C01..C20> <quick|thorough> | replay <file> | dump <id> <index> | digest <id> <n>");
            2
        }
    };
    std::process::exit(code);
}

fn parse_id(s: &str) -> Option<usize> {
    let s = s.trim_start_matches('C').trim_start_matches('c');
    s.parse().ok()
}

// ------------------------------------------------------------------------------------------------
// worker: runs a partition of the run indexes, streams violations, writes its stats to a file

/// The simulated caller runs on a thread with a 1 MiB stack (a spawned Rust thread has 2 MiB by
/// default, async runtimes often less): stack use that grows with the input then overflows into
/// the thread's guard page and is reported like any other crash.
fn worker(a: &[String]) -> i32 {
    let a: Vec<String> = a.to_vec();
    std::thread::Builder::new().stack_size(1 << 20).spawn(move || worker_body(&a)).unwrap().join().unwrap_or(101)
}

fn worker_body(a: &[String]) -> i32 {
    let id = parse_id(&a[0]).unwrap();
    let thorough = a[1] == "thorough";
    let seed: u64 = a[2].parse().unwrap();
    let from: u64 = a[3].parse().unwrap();
    let to: u64 = a[4].parse().unwrap();
    let stride: u64 = a[5].parse().unwrap();
    let offset: u64 = a[6].parse().unwrap();
    let out = &a[7];
    arena::install_crash_handler();
    let plan = plan::plan(id).unwrap();
    let tag = rng::tag_of(&pname(id));
    let mut arena = arena::Arena::new();
    let mut stats = Stats::default();
    let stdout = std::io::stdout();
    let mut samples: Vec<(u64, J)> = Vec::new();
    let mut i = from + (offset + stride - from % stride) % stride;
    // first index >= from congruent to offset
    while i % stride != offset {
        i += 1;
    }
    let mut since = 0u32;
    while i < to {
        arena::CURRENT_RUN.store(i, std::sync::atomic::Ordering::Relaxed);
        arena::watchdog(20);
        let rs = rng::run_seed(seed, tag, i);
        let t = plan.generate(rs, i, thorough);
        let want_sample = i < 3;
        let (viol, log) = execute(&mut arena, &mut stats, &t, plan.mask, want_sample);
        if want_sample {
            let mut j = J::obj().set("run_index", J::u(i)).set("run_seed", J::Str(rs.to_string())).set("trace", sample_trace(&t));
            if let Some(l) = log {
                j.put("events", J::Arr(l.into_iter().take(40).map(J::Str).collect()));
            }
            samples.push((i, j));
        }
        if !viol.is_empty() {
            let mut so = stdout.lock();
            for v in viol.iter().take(4) {
                let _ = writeln!(so, "V\t{}\t{}\t{}\t{}", i, v.prop, v.oracle, v.detail.replace('\n', " "));
            }
            let _ = so.flush();
        }
        since += 1;
        if since >= 2000 {
            since = 0;
            let mut so = stdout.lock();
            let _ = writeln!(so, "P\t{}", i);
            let _ = so.flush();
        }
        i += stride;
    }
    arena::CURRENT_RUN.store(u64::MAX, std::sync::atomic::Ordering::Relaxed);
    arena::watchdog(0);
    // stats file
    let j = stats_json(&stats, &samples);
    let _ = std::fs::write(format!("{}/w{}.json", out, offset), j.compact());
    // signature sets as binary files
    let mut sb: Vec<u8> = Vec::with_capacity(stats.sigs.len() * 8);
    for s in &stats.sigs {
        sb.extend_from_slice(&s.to_le_bytes());
    }
    let _ = std::fs::write(format!("{}/w{}.sigs", out, offset), sb);
    let mut ib: Vec<u8> = Vec::new();
    for s in &stats.interleavings {
        ib.extend_from_slice(&s.to_le_bytes());
    }
    let _ = std::fs::write(format!("{}/w{}.ilv", out, offset), ib);
    println!("D\t{}", offset);
    0
}

fn sample_trace(t: &Trace) -> J {
    // a compact, human-readable rendering of one explored case
    let mut j = J::obj()
        .set("scenario", J::str(t.scen.name()))
        .set("kind", J::str(t.kind.name()))
        .set("cfg_bits", J::u(t.cfg as u64))
        .set("cap", J::u(t.cap as u64))
        .set("entry", J::u(t.entry as u64))
        .set("backend", J::str(sut::BACKEND_NAMES[t.backend as usize & 3]))
        .set("reuse", J::u(t.reuse as u64));
    let conns: Vec<J> = t
        .conns
        .iter()
        .map(|c| {
            J::obj()
                .set("wire", J::Str(exec::brief(&c.wire)))
                .set("faults", J::Arr(c.faults.iter().map(|f| J::Str(format!("{}@{}:{}", f.kind, f.at, f.arg))).collect()))
                .set("deliveries_upto", J::Arr(c.deliveries.iter().map(|d| J::u(d.upto as u64)).collect()))
                .set("sender_truth_messages", J::u(c.truth.len() as u64))
        })
        .collect();
    j.put("connections", J::Arr(conns));
    if !t.ops.is_empty() {
        j.put("ops", J::Arr(t.ops.iter().map(|o| J::obj().set("buf", J::Str(exec::brief(&o.buf))).set("cfg", J::u(o.cfg as u64)).set("entry", J::u(o.entry as u64))).collect()));
    }
    j
}

fn stats_json(s: &Stats, samples: &[(u64, J)]) -> J {
    let map = |m: &BTreeMap<&'static str, u64>| J::Obj(m.iter().map(|(k, v)| (k.to_string(), J::u(*v))).collect());
    J::obj()
        .set("runs", J::u(s.runs))
        .set("calls", J::u(s.calls))
        .set("evaluations", J::Arr(s.evaluations.iter().map(|&x| J::u(x)).collect()))
        .set("outcomes", J::Obj(s.outcomes.iter().map(|(k, v)| (k.clone(), J::u(*v))).collect()))
        .set("probes", map(&s.probes))
        .set("faults_fired", map(&s.faults_fired))
        .set("skipped", map(&s.skipped))
        .set("sim_time_us", J::u(s.sim_time_us))
        .set("ticks", J::u(s.ticks))
        .set("max_len", J::u(s.max_len as u64))
        .set("entry_seen", J::Arr(s.entry_seen.iter().map(|r| J::Arr(r.iter().map(|&x| J::u(x)).collect())).collect()))
        .set("cfg_seen", J::Arr(s.cfg_seen.iter().map(|&x| J::u(x)).collect()))
        .set("backend_seen", J::Arr(s.backend_seen.iter().map(|&x| J::u(x)).collect()))
        .set("samples", J::Arr(samples.iter().map(|(i, j)| J::Arr(vec![J::u(*i), j.clone()])).collect()))
}

// ------------------------------------------------------------------------------------------------
// parent

struct Found {
    index: u64,
    prop: usize,
    oracle: String,
    detail: String,
}

fn add_obj(into: &mut BTreeMap<String, u64>, j: Option<&J>) {
    if let Some(J::Obj(o)) = j {
        for (k, v) in o {
            *into.entry(k.clone()).or_insert(0) += v.as_u64().unwrap_or(0);
        }
    }
}

fn check_cmd(a: &[String]) -> i32 {
    let id = match a.get(0).and_then(|s| parse_id(s)) {
        Some(i) => i,
        None => return 2,
    };
    let tier = a.get(1).map(|s| s.as_str()).unwrap_or("quick").to_string();
    let thorough = tier == "thorough";
    let plan = match plan::plan(id) {
        Some(p) => p,
        None => {
            eprintln!("no plan for C{:02}", id);
            return 2;
        }
    };
    let seed = verif_seed();
    let scale: f64 = std::env::var("VERIF_SCALE").ok().and_then(|s| s.parse().ok()).unwrap_or(1.0);
    let total = ((if thorough { plan.thorough_runs } else { plan.quick_runs }) as f64 * scale) as u64;
    let nj = jobs() as u64;
    let exe = std::env::current_exe().unwrap();
    let vd = verif_dir();
    let work = format!("{}/work/{}-{}-{}", vd, pname(id), tier, std::process::id());
    let _ = std::fs::remove_dir_all(&work);
    std::fs::create_dir_all(&work).unwrap();
    println!("hpsim check {} tier={} VERIF_SEED={} runs={} jobs={}", pname(id), tier, seed, total, nj);
    let t0 = std::time::Instant::now();

    // spawn workers; on a crash restart the partition just past the crashing run
    let (tx, rx) = std::sync::mpsc::channel::<(u64, String)>();
    let mut crashed: Vec<(u64, i32)> = Vec::new();
    let mut handles = Vec::new();
    for w in 0..nj {
        let tx = tx.clone();
        let exe = exe.clone();
        let work = work.clone();
        let tier = tier.clone();
        handles.push(std::thread::spawn(move || {
            let mut from = 0u64;
            let mut restarts = 0;
            loop {
                let mut child = Command::new(&exe)
                    .args(["worker", &pname(id), &tier, &seed.to_string(), &from.to_string(), &total.to_string(), &nj.to_string(), &w.to_string(), &work])
                    .stdout(Stdio::piped())
                    .stderr(Stdio::null())
                    .spawn()
                    .expect("spawn worker");
                let out = child.stdout.take().unwrap();
                let mut done = false;
                let mut crash_at: Option<u64> = None;
                for line in BufReader::new(out).lines().map_while(Result::ok) {
                    if line.starts_with("D\t") {
                        done = true;
                    } else if let Some(rest) = line.strip_prefix("CRASH ") {
                        // CRASH sig=<s> run=<i>
                        let run = rest.split("run=").nth(1).and_then(|s| s.trim().parse::<u64>().ok());
                        crash_at = run;
                        let _ = tx.send((w, line.clone()));
                    } else {
                        let _ = tx.send((w, line));
                    }
                }
                let status = child.wait().ok();
                if done {
                    break;
                }
                match crash_at {
                    Some(_) if restarts >= 3 => {
                        // the partition keeps dying: enough evidence, do not spend the budget on it
                        break;
                    }
                    Some(r) if r != u64::MAX && r + 1 > from => {
                        restarts += 1;
                        // NOTE: stats of the crashed worker's partition before the crash are lost;
                        // they are recomputed by the restarted worker only from r+1 on.
                        from = r + 1;
                    }
                    _ => {
                        let _ = tx.send((w, format!("H\tworker {} died without a crash report: {:?}", w, status)));
                        break;
                    }
                }
            }
        }));
    }
    drop(tx);
    let mut found: Vec<Found> = Vec::new();
    let mut harness_errors: Vec<String> = Vec::new();
    for (_w, line) in rx {
        let p: Vec<&str> = line.splitn(5, '\t').collect();
        match p.first().copied() {
            Some("V") if p.len() == 5 => found.push(Found { index: p[1].parse().unwrap_or(0), prop: p[2].parse().unwrap_or(0), oracle: p[3].to_string(), detail: p[4].to_string() }),
            Some("P") => {}
            Some("H") => harness_errors.push(line.clone()),
            _ => {
                if let Some(rest) = line.strip_prefix("CRASH ") {
                    let sig = rest.split("sig=").nth(1).and_then(|s| s.split(' ').next()).and_then(|s| s.parse::<i32>().ok()).unwrap_or(0);
                    let run = rest.split("run=").nth(1).and_then(|s| s.trim().parse::<u64>().ok()).unwrap_or(u64::MAX);
                    crashed.push((run, sig));
                }
            }
        }
    }
    for h in handles {
        let _ = h.join();
    }
    if std::env::var("VERIF_DEBUG").is_ok() {
        let mut classes: BTreeMap<(usize, String), (u64, String, u64)> = BTreeMap::new();
        for f in &found {
            let e = classes.entry((f.prop, f.oracle.clone())).or_insert((0, f.detail.clone(), f.index));
            e.0 += 1;
        }
        for ((p, o), (n, d, i)) in &classes {
            println!("DEBUG {} {} x{} first run {}: {}", pname(*p), o, n, i, d);
        }
    }
    let wall = t0.elapsed().as_secs_f64();

    // merge stats
    let mut runs = 0u64;
    let mut calls = 0u64;
    let mut evals = [0u64; NPROPS];
    let mut outcomes = BTreeMap::new();
    let mut probes = BTreeMap::new();
    let mut faults = BTreeMap::new();
    let mut skipped = BTreeMap::new();
    let mut sim_time = 0u64;
    let mut ticks = 0u64;
    let mut max_len = 0u64;
    let mut entry_seen = [[0u64; 4]; 4];
    let mut cfg_seen = [0u64; 128];
    let mut backend_seen = [0u64; 4];
    let mut samples: Vec<(u64, J)> = Vec::new();
    let mut sigs: Vec<u64> = Vec::new();
    let mut ilv: Vec<u64> = Vec::new();
    for w in 0..nj {
        let p = format!("{}/w{}.json", work, w);
        let Ok(txt) = std::fs::read_to_string(&p) else {
            continue;
        };
        let Ok(j) = J::parse(&txt) else {
            harness_errors.push(format!("unreadable stats {}", p));
            continue;
        };
        runs += j.get("runs").and_then(|x| x.as_u64()).unwrap_or(0);
        calls += j.get("calls").and_then(|x| x.as_u64()).unwrap_or(0);
        if let Some(e) = j.get("evaluations").and_then(|x| x.as_arr()) {
            for (i, x) in e.iter().enumerate().take(NPROPS) {
                evals[i] += x.as_u64().unwrap_or(0);
            }
        }
        add_obj(&mut outcomes, j.get("outcomes"));
        add_obj(&mut probes, j.get("probes"));
        add_obj(&mut faults, j.get("faults_fired"));
        add_obj(&mut skipped, j.get("skipped"));
        sim_time += j.get("sim_time_us").and_then(|x| x.as_u64()).unwrap_or(0);
        ticks += j.get("ticks").and_then(|x| x.as_u64()).unwrap_or(0);
        max_len = max_len.max(j.get("max_len").and_then(|x| x.as_u64()).unwrap_or(0));
        if let Some(e) = j.get("entry_seen").and_then(|x| x.as_arr()) {
            for (k, row) in e.iter().enumerate().take(4) {
                if let Some(r) = row.as_arr() {
                    for (e2, x) in r.iter().enumerate().take(4) {
                        entry_seen[k][e2] += x.as_u64().unwrap_or(0);
                    }
                }
            }
        }
        if let Some(e) = j.get("cfg_seen").and_then(|x| x.as_arr()) {
            for (k, x) in e.iter().enumerate().take(128) {
                cfg_seen[k] += x.as_u64().unwrap_or(0);
            }
        }
        if let Some(e) = j.get("backend_seen").and_then(|x| x.as_arr()) {
            for (k, x) in e.iter().enumerate().take(4) {
                backend_seen[k] += x.as_u64().unwrap_or(0);
            }
        }
        if let Some(s) = j.get("samples").and_then(|x| x.as_arr()) {
            for x in s {
                if let Some(a) = x.as_arr() {
                    samples.push((a[0].as_u64().unwrap_or(0), a[1].clone()));
                }
            }
        }
        for (ext, dst) in [("sigs", &mut sigs), ("ilv", &mut ilv)] {
            if let Ok(b) = std::fs::read(format!("{}/w{}.{}", work, w, ext)) {
                for c in b.chunks_exact(8) {
                    dst.push(u64::from_le_bytes(c.try_into().unwrap()));
                }
            }
        }
    }
    sigs.sort_unstable();
    sigs.dedup();
    ilv.sort_unstable();
    ilv.dedup();
    samples.sort_by_key(|s| s.0);
    samples.truncate(3);
    let _ = std::fs::remove_dir_all(&work);

    // ---- violations of this property: minimise, write replay files, confirm in a fresh process
    found.sort_by(|a, b| (a.index, &a.oracle).cmp(&(b.index, &b.oracle)));
    let mine: Vec<&Found> = found.iter().filter(|f| f.prop == id).collect();
    let known = load_known(&vd);
    let mut reported = 0usize;
    let mut known_hits: BTreeMap<String, u64> = BTreeMap::new();
    let mut violation_lines: Vec<String> = Vec::new();
    let mut seen_classes: Vec<String> = Vec::new();
    let tag = rng::tag_of(&pname(id));
    let _ = std::fs::create_dir_all(format!("{}/replays", vd));
    let mut seen_runs: Vec<u64> = Vec::new();
    for f in &mine {
        // one report per run, at most two per oracle, at most four in all
        if seen_runs.contains(&f.index) || seen_classes.iter().filter(|c| **c == f.oracle).count() >= 2 {
            continue;
        }
        seen_runs.push(f.index);
        seen_classes.push(f.oracle.clone());
        if reported >= 4 {
            break;
        }
        let rs = rng::run_seed(seed, tag, f.index);
        let t = plan.generate(rs, f.index, thorough);
        // budget in executions, scaled so that long traces do not take minutes to shrink
        let tl = t.conns.iter().map(|c| c.wire.len()).sum::<usize>() + t.ops.iter().map(|o| o.buf.len()).sum::<usize>();
        let budget = (40_000_000 / tl.max(1)).clamp(60, 3000);
        let min = minimise::minimise_in_child(&t, plan.mask & check::pbit(id), id, &f.oracle, budget, &exe, &vd);
        // known finding?
        let text = min.to_json().compact();
        if let Some(k) = known.iter().find(|k| k.prop == id && !k.fixed && k.matches(&min, &text)) {
            *known_hits.entry(k.what.clone()).or_insert(0) += 1;
            continue;
        }
        let path = format!("{}/replays/{}-{}.json", vd, pname(id), rs);
        let rj = J::obj()
            .set("property", J::Str(pname(id)))
            .set("oracle", J::Str(f.oracle.clone()))
            .set("detail", J::Str(f.detail.clone()))
            .set("check", J::Str(pname(id)))
            .set("tier", J::Str(tier.clone()))
            .set("verif_seed", J::Str(seed.to_string()))
            .set("run_index", J::u(f.index))
            .set("variant", J::Str(std::env::var("VERIF_VARIANT").unwrap_or_else(|_| "rt".to_string())))
            .set("mask", J::u((plan.mask & check::pbit(id)) as u64))
            .set("minimised_from_bytes", J::u(t.conns.iter().map(|c| c.wire.len()).sum::<usize>() as u64 + t.ops.iter().map(|o| o.buf.len()).sum::<usize>() as u64))
            .set("trace", min.to_json());
        std::fs::write(&path, rj.pretty()).unwrap();
        // confirm in a fresh process
        let st = Command::new(&exe).args(["replay", &path]).stdout(Stdio::null()).stderr(Stdio::null()).status();
        let confirmed = matches!(st.map(|s| s.code()), Ok(Some(1)));
        if !confirmed {
            // fall back to the unminimised trace
            let rj2 = J::obj().set("property", J::Str(pname(id))).set("oracle", J::Str(f.oracle.clone())).set("detail", J::Str(f.detail.clone())).set("mask", J::u((plan.mask & check::pbit(id)) as u64)).set("trace", t.to_json());
            std::fs::write(&path, rj2.pretty()).unwrap();
        }
        violation_lines.push(format!("VIOLATION property={} replay={}", pname(id), path));
        println!("  [{}] run {} oracle {}: {}", pname(id), f.index, f.oracle, f.detail);
        reported += 1;
    }
    // crashes: C01 owns them (C19 owns aborts in allocation-failure runs)
    let mut crash_notes = Vec::new();
    let mut crash_reports = 0;
    for (run, sig) in &crashed {
        let owns = id == 1 || (id == 19 && *sig == 6) || (id == 20 && *sig == 14);
        if owns && *run != u64::MAX {
            let rs = rng::run_seed(seed, tag, *run);
            let t = plan.generate(rs, *run, thorough);
            let min = minimise::minimise_crash(&t, plan.mask, &exe, &vd, if *sig == 14 { 12 } else { 200 });
            let path = format!("{}/replays/{}-{}.json", vd, pname(id), rs);
            let rj = J::obj()
                .set("property", J::Str(pname(id)))
                .set("oracle", J::str("process-death"))
                .set("detail", J::Str(if *sig == 14 { "the run did not finish within the watchdog limit (normal: < 1 ms)".to_string() } else { format!("worker killed by signal {} while executing this run", sig) }))
                .set("expect_crash", J::Bool(true))
                .set("variant", J::Str(std::env::var("VERIF_VARIANT").unwrap_or_else(|_| "rt".to_string())))
                .set("mask", J::u(plan.mask as u64))
                .set("trace", min.to_json());
            std::fs::write(&path, rj.pretty()).unwrap();
            violation_lines.push(format!("VIOLATION property={} replay={}", pname(id), path));
            println!("  [{}] run {}: process died with signal {}", pname(id), run, sig);
            reported += 1;
            crash_reports += 1;
            if reported >= 6 || crash_reports >= if *sig == 14 { 2 } else { 4 } {
                break;
            }
        } else {
            crash_notes.push(format!("run {} died with signal {} (owned by C01)", run, sig));
        }
    }

    // ---- evidence
    let rule = "one evaluation = one parse call checked by this property's oracle(s) inside a simulated run (seed -> trace -> receiver loop / prefix sweep / reuse history / adversarial input); a case is non-trivial when the call got past the first byte of the start line (or is a header-block / chunk-size call) on a buffer of >= 2 bytes; distinct = distinct state signatures (scenario, kind, config bits, capacity class 0/1/2/3+, entry point, forced backend, placement mode, len mod 32, start alignment mod 32, reference-model grammar position at stop, outcome class)";
    let mut cov = J::obj()
        .set("evaluations", J::u(evals[id].max(if id == 0 { calls } else { 0 })))
        .set("distinct_nontrivial", J::u(sigs.len() as u64))
        .set("rule", J::str(rule))
        .set("samples", J::Arr(samples.iter().map(|s| s.1.clone()).collect()))
        .set("runs", J::u(runs))
        .set("parse_calls_total", J::u(calls))
        .set("runs_per_hour", J::u(if wall > 0.0 { (runs as f64 / wall * 3600.0) as u64 } else { 0 }))
        .set("run_index_range", J::Arr(vec![J::u(0), J::u(total)]))
        .set("sim_time_s", J::F(sim_time as f64 / 1e6))
        .set("metered_ticks", J::u(ticks))
        .set("max_buffer_len", J::u(max_len))
        .set("distinct_interleavings", J::u(ilv.len() as u64))
        .set("interleaving_measure", J::str("distinct per-run sequences of (connection index of each delivery, kind and outcome class of each parse call)"))
        .set("faults_fired", J::Obj(faults.iter().map(|(k, v)| (k.clone(), J::u(*v))).collect()))
        .set("outcomes", J::Obj(outcomes.iter().map(|(k, v)| (k.clone(), J::u(*v))).collect()))
        .set("probes", J::Obj(probes.iter().map(|(k, v)| (k.clone(), J::u(*v))).collect()))
        .set("skipped", J::Obj(skipped.iter().map(|(k, v)| (k.clone(), J::u(*v))).collect()))
        .set("configs_seen", J::u(cfg_seen.iter().filter(|&&x| x > 0).count() as u64))
        .set("entry_points_seen", J::Arr(entry_seen.iter().map(|r| J::Arr(r.iter().map(|&x| J::u(x)).collect())).collect()))
        .set("backends_forced", J::Obj(sut::BACKEND_NAMES.iter().enumerate().map(|(i, n)| (n.to_string(), J::u(backend_seen[i]))).collect()))
        .set(
            "components",
            J::obj()
                .set("real", J::str("httparse public API (Request/Response::parse, ParserConfig::parse_*, *_with_uninit_headers, parse_headers, parse_chunk_size), iter.rs, macros.rs, simd/{mod,runtime,swar,sse42,avx2}.rs, build.rs — built from /repo's working tree with --cfg httparse_verif"))
                .set("stub", J::str("sender, wire and wire faults, receiver loop and body framing, placement arena, reuse policies, event queue; reference model (independent of the crate's code); allocator = system allocator behind a counting wrapper"))
                .set("not_executed", J::str("simd/neon.rs (aarch64 only)")),
        )
        .set("crashed_runs_not_owned", J::Arr(crash_notes.iter().map(|s| J::Str(s.clone())).collect()))
        .set("known_findings_hit", J::Obj(known_hits.iter().map(|(k, v)| (k.clone(), J::u(*v))).collect()))
        .set("violations_of_other_properties_seen", J::u(0));
    if let Ok(extra) = std::env::var("VERIF_EXTRA_EVIDENCE") {
        if let Ok(txt) = std::fs::read_to_string(&extra) {
            if let Ok(J::Obj(o)) = J::parse(&txt) {
                for (k, v) in o {
                    cov.put(&k, v);
                }
            }
        }
    }
    let ev = J::obj()
        .set("property_id", J::Str(pname(id)))
        .set("tier", J::Str(tier.clone()))
        .set("seed", J::Int(seed as i64))
        .set("level", J::str(plan.level))
        .set("coverage", cov)
        .set(
            "assumptions",
            J::Arr(
                [
                    "sampled, not exhaustive: a clean batch is evidence, not proof",
                    "x86-64 host only; NEON and 32-bit code paths never execute",
                    "the reference model (sim/src/model.rs) is trusted as the reading of the property statements",
                    "guard pages detect out-of-bounds accesses that are dereferenced; never-dereferenced out-of-bounds pointer arithmetic is only visible to the Miri engine",
                ]
                .iter()
                .map(|s| J::str(s))
                .collect(),
            ),
        )
        .set("wall_s", J::F(wall))
        .set("violations", J::Int(reported as i64));
    let _ = std::fs::create_dir_all(format!("{}/evidence", vd));
    let evpath = std::env::var("VERIF_EVIDENCE_OUT").unwrap_or(format!("{}/evidence/{}.json", vd, pname(id)));
    if id != 0 {
        std::fs::write(&evpath, ev.pretty()).unwrap();
    }
    println!(
        "  runs={} calls={} evaluations[{}]={} distinct_signatures={} interleavings={} wall={:.1}s crashed={} other-property-violations-seen={}",
        runs,
        calls,
        pname(id),
        evals[id],
        sigs.len(),
        ilv.len(),
        wall,
        crashed.len(),
        found.iter().filter(|f| f.prop != id).count()
    );
    for (k, n) in &known_hits {
        println!("KNOWN-FINDING: property={} {} ({} runs)", pname(id), k, n);
    }
    for l in &violation_lines {
        println!("{}", l);
    }
    if !harness_errors.is_empty() {
        for h in &harness_errors {
            eprintln!("HARNESS-ERROR {}", h);
        }
        return 2;
    }
    if reported > 0 {
        // (a parser that kills every worker at once leaves no completed runs: still a violation)
        return 1;
    }
    if runs == 0 {
        eprintln!("HARNESS-ERROR no runs executed");
        return 2;
    }
    0
}

pub struct Known {
    pub prop: usize,
    pub fixed: bool,
    pub what: String,
    pub key: String,
}
impl Known {
    fn matches(&self, _t: &Trace, text: &str) -> bool {
        !self.key.is_empty() && text.contains(&self.key)
    }
}

/// known_findings.txt lines:
///   finding: property=C09 key=<substring of the minimised replay trace JSON> <what fails>
///   fixed: property=C09 <commit> <what failed>
fn load_known(vd: &str) -> Vec<Known> {
    let mut v = Vec::new();
    if let Ok(txt) = std::fs::read_to_string(format!("{}/known_findings.txt", vd)) {
        for l in txt.lines() {
            let l = l.trim();
            let (fixed, rest) = if let Some(r) = l.strip_prefix("finding:") {
                (false, r)
            } else if let Some(r) = l.strip_prefix("fixed:") {
                (true, r)
            } else {
                continue;
            };
            let rest = rest.trim();
            let prop = rest.split_whitespace().find_map(|w| w.strip_prefix("property=")).and_then(parse_id).unwrap_or(0);
            let key = rest.split_whitespace().find_map(|w| w.strip_prefix("key=")).unwrap_or("").to_string();
            v.push(Known { prop, fixed, what: rest.to_string(), key });
        }
    }
    v
}

// ------------------------------------------------------------------------------------------------

fn replay(a: &[String]) -> i32 {
    let a: Vec<String> = a.to_vec();
    std::thread::Builder::new().stack_size(1 << 20).spawn(move || replay_body(&a)).unwrap().join().unwrap_or(101)
}

fn replay_body(a: &[String]) -> i32 {
    let Some(path) = a.first() else {
        return 2;
    };
    let txt = match std::fs::read_to_string(path) {
        Ok(t) => t,
        Err(e) => {
            eprintln!("cannot read {}: {}", path, e);
            return 2;
        }
    };
    let j = match J::parse(&txt) {
        Ok(j) => j,
        Err(e) => {
            eprintln!("bad replay file: {}", e);
            return 2;
        }
    };
    let t = match j.get("trace").ok_or("no trace".to_string()).and_then(Trace::from_json) {
        Ok(t) => t,
        Err(e) => {
            eprintln!("bad trace: {}", e);
            return 2;
        }
    };
    let mask = j.get("mask").and_then(|x| x.as_u64()).unwrap_or(u32::MAX as u64) as u32;
    let quiet = a.iter().any(|s| s == "--quiet");
    arena::install_crash_handler();
    arena::CURRENT_RUN.store(0, std::sync::atomic::Ordering::Relaxed);
    arena::watchdog(std::env::var("VERIF_WATCHDOG").ok().and_then(|s| s.parse().ok()).unwrap_or(20));
    let mut arena = arena::Arena::new();
    let mut stats = Stats::default();
    let (v, log) = execute(&mut arena, &mut stats, &t, mask, !quiet);
    arena::watchdog(0);
    if !quiet {
        println!("replay {}: scenario={} kind={} calls={}", path, t.scen.name(), t.kind.name(), stats.calls);
        if let Some(l) = log {
            for line in l.iter().take(200) {
                println!("{}", line);
            }
        }
    }
    let want_oracle = j.get("oracle").and_then(|x| x.as_str()).unwrap_or("");
    let want_prop = j.get("property").and_then(|x| x.as_str()).and_then(parse_id);
    let hit: Vec<&Violation> = v.iter().filter(|x| Some(x.prop) == want_prop || want_prop.is_none()).collect();
    for x in &hit {
        println!("VIOLATION-REPRODUCED property={} oracle={} {}", pname(x.prop), x.oracle, x.detail);
    }
    if hit.iter().any(|x| x.oracle == want_oracle) || (!hit.is_empty() && want_oracle.is_empty()) || (!hit.is_empty()) {
        1
    } else {
        println!("no violation reproduced");
        0
    }
}

fn minimise_cmd(a: &[String]) -> i32 {
    let (inp, outp) = (&a[0], &a[1]);
    let prop: usize = a[2].parse().unwrap();
    let oracle = &a[3];
    let mask: u32 = a[4].parse().unwrap();
    let budget: usize = a[5].parse().unwrap();
    arena::install_crash_handler();
    let Ok(txt) = std::fs::read_to_string(inp) else { return 2 };
    let Ok(j) = J::parse(&txt) else { return 2 };
    let Ok(t) = Trace::from_json(&j) else { return 2 };
    let m = minimise::minimise(&t, mask, prop, oracle, budget, Some(outp.clone()));
    let _ = std::fs::write(outp, m.to_json().compact());
    0
}

/// `miri-conn`: a small batch of traces executed in-process (this binary itself runs under Miri).
fn miri_cmd(a: &[String]) -> i32 {
    let id = parse_id(&a[0]).unwrap();
    let from: u64 = a[1].parse().unwrap();
    let to: u64 = a[2].parse().unwrap();
    let seed: u64 = a.get(3).and_then(|s| s.parse().ok()).unwrap_or(DEFAULT_SEED);
    let plan = plan::plan(id).unwrap();
    let tag = rng::tag_of(&pname(id));
    let mut arena = arena::Arena::new();
    let mut stats = Stats::default();
    let mut nviol = 0;
    for i in from..to {
        let rs = rng::run_seed(seed, tag, i);
        let mut t = plan.generate(rs, i, false);
        // keep interpreted runs small
        if t.scen == trace::Scen::Adversarial {
            continue;
        }
        for c in t.conns.iter_mut() {
            let lim = if t.scen == trace::Scen::Sweep { 90 } else { 600 };
            if c.wire.len() > lim {
                c.wire.truncate(lim);
                c.truth.clear();
                for d in c.deliveries.iter_mut() {
                    d.upto = d.upto.min(lim);
                }
                for u in c.alt.iter_mut() {
                    *u = (*u).min(lim);
                }
            }
        }
        t.conns.truncate(2);
        t.alloc_mode = 1;
        let (v, _) = execute(&mut arena, &mut stats, &t, plan.mask, false);
        for x in v {
            println!("MIRI-VIOLATION run={} {} {} {}", i, pname(x.prop), x.oracle, x.detail);
            nviol += 1;
        }
    }
    println!("MIRI-CONN plan={} runs={}..{} calls={} violations={}", pname(id), from, to, stats.calls, nviol);
    if nviol > 0 {
        1
    } else {
        0
    }
}

/// Cold-start race with real threads; meaningful under Miri (`-Zmiri-many-seeds`), whose scheduler
/// and data-race detector own the interleaving.
fn miri_threads(a: &[String]) -> i32 {
    let n: usize = a.first().and_then(|s| s.parse().ok()).unwrap_or(4);
    const REQ: &[u8] = b"GET /a/rather/long/target/so-that-the-vector-loop-runs/0123456789/abcdefghijklmnop HTTP/1.1\r\nHost: example.org\r\nX-Long: 0123456789abcdefghijklmnopqrstuvwxyz0123456789\r\n\r\n";
    fn one() -> (u8, usize, usize) {
        let mut h = [httparse::EMPTY_HEADER; 4];
        let mut r = httparse::Request::new(&mut h);
        match r.parse(REQ) {
            Ok(httparse::Status::Complete(n)) => (0, n, r.headers.len()),
            Ok(httparse::Status::Partial) => (1, 0, 0),
            Err(_) => (2, 0, 0),
        }
    }
    let hs: Vec<_> = (0..n).map(|_| std::thread::spawn(one)).collect();
    let got: Vec<_> = hs.into_iter().map(|h| h.join().unwrap()).collect();
    let reference = one();
    for g in &got {
        if *g != reference {
            println!("MIRI-VIOLATION C13 coldstart: thread result {:?} differs from reference {:?}", g, reference);
            return 1;
        }
    }
    println!("MIRI-THREADS ok n={} result={:?}", n, reference);
    0
}

/// One parse of one adversarial-family input of a given size and nothing else: the subject of the
/// instruction-count clock (run under `valgrind --tool=cachegrind`).
fn work_cmd(a: &[String]) -> i32 {
    let fam: usize = a[0].parse().unwrap();
    let size: usize = a[1].parse().unwrap();
    let Some((kind, cfg, cap, data)) = gen::family_input(fam, size) else { return 2 };
    let mut arena = arena::Arena::new();
    let buf = arena.place(&data, arena::Place::END, &[]);
    let spec = sut::CallSpec { kind, entry: 1, cfg, cap, backend: 0, arr_guard: false, alloc_mode: 0 };
    let mut s = sut::Session::new();
    let skip = a.get(2).map(|x| x == "skip").unwrap_or(false);
    if skip {
        // baseline: everything except the parse call
        println!("WORK fam={} size={} len={} skipped", fam, size, data.len());
        return 0;
    }
    let o = s.call(&mut arena, &spec, buf, false);
    println!("WORK fam={} size={} len={} status={:?} meter={:?}", fam, size, data.len(), o.st, o.work);
    0
}

fn dump(a: &[String]) -> i32 {
    let id = parse_id(&a[0]).unwrap();
    let from: u64 = a[1].parse().unwrap();
    let to: u64 = a.get(2).and_then(|s| s.parse().ok()).unwrap_or(from + 1);
    let thorough = a.get(3).map(|s| s == "thorough").unwrap_or(false);
    let plan = plan::plan(id).unwrap();
    let seed = verif_seed();
    let tag = rng::tag_of(&pname(id));
    let mut arena = arena::Arena::new();
    let mut stats = Stats::default();
    let full = to == from + 1;
    for i in from..to {
        let rs = rng::run_seed(seed, tag, i);
        let t = plan.generate(rs, i, thorough);
        if full {
            println!("{}", t.to_json().pretty());
        }
        let (v, log) = execute(&mut arena, &mut stats, &t, plan.mask, true);
        println!("RUN {} seed={} scenario={} kind={}", i, rs, t.scen.name(), t.kind.name());
        for l in log.unwrap_or_default() {
            println!("{}", l);
        }
        for x in v {
            println!("  VIOLATION {} {} {}", pname(x.prop), x.oracle, x.detail);
        }
    }
    0
}

/// Per-run outcome digests for the `variants` scenario: differently built copies of this binary
/// must print identical lines for the same seeds.
fn digest(a: &[String]) -> i32 {
    let id = parse_id(&a[0]).unwrap();
    let n: u64 = a[1].parse().unwrap();
    let plan = plan::plan(id).unwrap();
    let seed = verif_seed();
    let tag = rng::tag_of(&pname(id));
    let mut arena = arena::Arena::new();
    let out = std::io::stdout();
    let mut so = out.lock();
    arena::install_crash_handler();
    for i in 0..n {
        arena::CURRENT_RUN.store(i, std::sync::atomic::Ordering::Relaxed);
        arena::watchdog(20);
        let rs = rng::run_seed(seed, tag, i);
        let mut t = plan.generate(rs, i, false);
        // forced backends only exist at the runtime-detection point: neutralise the knob
        t.backend = 0;
        let mut stats = Stats::default();
        arena.reset();
        let mut e = Exec::new(&mut arena, &mut stats, &t, 0, true);
        e.run();
        // digest of outcome lines only (no work counters: those legitimately differ per backend)
        let mut h = 0u64;
        for l in e.log.take().unwrap_or_default() {
            let core = l.split(" work=").next().unwrap_or("");
            let core = core.split(" backend=").next().unwrap_or("").to_string() + core.split("-> ").nth(1).unwrap_or("");
            for b in core.bytes() {
                h = rng::mix(h ^ b as u64);
            }
        }
        let _ = writeln!(so, "{} {:016x}", i, h);
    }
    arena::watchdog(0);
    0
}
