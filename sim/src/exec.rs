//! Executor: `execute(&Trace, mask)` runs one simulated run — the receiver loops of all
//! connections in the order the event queue decided, every parse call observed, monitored,
//! compared with the reference model and (sampled) re-issued under changed knobs — and returns
//! the violations. A pure function of the trace and the code under test.

use crate::arena::{Arena, Mode, Place, Tail};
use crate::check::*;
use crate::model::{self, es, St, E};
use crate::rng::{mix, Rng};
use crate::sut::{CallSpec, Kind, Obs, Session};
use crate::trace::*;
use std::collections::{BTreeMap, HashSet};

pub struct Stats {
    pub runs: u64,
    pub calls: u64,
    pub evaluations: [u64; NPROPS],
    pub outcomes: BTreeMap<String, u64>,
    pub probes: BTreeMap<&'static str, u64>,
    pub faults_fired: BTreeMap<&'static str, u64>,
    pub sigs: HashSet<u64>,
    pub interleavings: HashSet<u64>,
    pub sim_time_us: u64,
    pub ticks: u64,
    pub entry_seen: [[u64; 4]; 4],
    pub cfg_seen: [u64; 128],
    pub backend_seen: [u64; 4],
    pub skipped: BTreeMap<&'static str, u64>,
    pub max_len: usize,
}

impl Default for Stats {
    fn default() -> Stats {
        Stats {
            runs: 0,
            calls: 0,
            evaluations: [0; NPROPS],
            outcomes: BTreeMap::new(),
            probes: BTreeMap::new(),
            faults_fired: BTreeMap::new(),
            sigs: HashSet::new(),
            interleavings: HashSet::new(),
            sim_time_us: 0,
            ticks: 0,
            entry_seen: [[0; 4]; 4],
            cfg_seen: [0; 128],
            backend_seen: [0; 4],
            skipped: BTreeMap::new(),
            max_len: 0,
        }
    }
}

impl Stats {
    pub fn probe(&mut self, name: &'static str) {
        *self.probes.entry(name).or_insert(0) += 1;
    }
    pub fn skip(&mut self, name: &'static str) {
        *self.skipped.entry(name).or_insert(0) += 1;
    }
}

#[derive(Clone, Debug, PartialEq, Eq)]
pub enum HEv {
    Head { n: usize, digest: u64 },
    Body(usize),
    ChunkLine { n: usize, size: u64 },
    ChunkData(u64),
    Trailer { n: usize, digest: u64 },
    End { consumed: usize, how: String },
}

#[derive(Clone, Copy, Debug, PartialEq, Eq)]
enum RMode {
    Head,
    Body(usize),
    ChunkSize,
    ChunkData(u64),
    ChunkCrlf,
    Trailer,
    Closed,
}

struct Receiver {
    consumed: usize,
    mode: RMode,
    hist: Vec<HEv>,
    body_acc: usize,
    chunk_acc: u64,
    heads: Vec<Obs>,
    /// stable receive buffer: (base, bytes copied in so far)
    stable: Option<(*mut u8, usize)>,
}

pub struct Exec<'a> {
    pub arena: &'a mut Arena,
    pub mask: u32,
    pub stats: &'a mut Stats,
    pub viol: Vec<Violation>,
    pub log: Option<Vec<String>>,
    rk: Rng,
    t: &'a Trace,
    ncall: usize,
    ilv: u64,
}

const MSG_BUDGET: usize = 400;

const COMPLETIONS_MID: &[&[u8]] = &[
    b"", b":", b"x:", b"G / HTTP/1.1", b" / HTTP/1.1", b"/ HTTP/1.1", b" HTTP/1.1", b"HTTP/1.1", b"TTP/1.1", b"TP/1.1", b"P/1.1", b"/1.1", b"1.1", b".1", b"1", b"HTTP/1.1 200",
    b"TTP/1.1 200", b"TP/1.1 200", b"P/1.1 200", b"/1.1 200", b"1.1 200", b".1 200", b"1 200", b" 200", b"200", b"00", b"0",
];
const COMPLETIONS_CHUNK: &[&[u8]] = &[b"\n", b"\r\n", b"0\r\n", b";\r\n"];

pub fn completions(kind: Kind) -> Vec<Vec<u8>> {
    if kind == Kind::Chunk {
        return COMPLETIONS_CHUNK.iter().map(|s| s.to_vec()).collect();
    }
    let mut v = Vec::new();
    for pre in [&b""[..], b"\n"] {
        for mid in COMPLETIONS_MID {
            for end in [&b"\r\n\r\n"[..], b"\r\n", b"\n\r\n"] {
                let mut s = pre.to_vec();
                s.extend_from_slice(mid);
                s.extend_from_slice(end);
                v.push(s);
            }
        }
    }
    v
}

fn head_digest(o: &Obs) -> u64 {
    let mut h = obs_digest(o);
    for f in [&o.method, &o.path, &o.reason] {
        if let Some(f) = f {
            for &b in &f.bytes {
                h = mix(h ^ b as u64);
            }
        }
    }
    for hd in &o.headers {
        for &b in hd.name.bytes.iter().chain(hd.value.bytes.iter()) {
            h = mix(h ^ b as u64);
        }
        h = mix(h ^ 0xfe);
    }
    h
}

/// Body framing as a receiver derives it from the headers the parser reported.
fn framing_of(o: &Obs) -> Result<Body, ()> {
    let mut body = Body::None;
    for h in &o.headers {
        if h.name.bytes.eq_ignore_ascii_case(b"content-length") {
            let v = &h.value.bytes;
            if v.is_empty() || v.len() > 9 || !v.iter().all(|b| b.is_ascii_digit()) {
                return Err(());
            }
            let n: usize = std::str::from_utf8(v).unwrap().parse().unwrap();
            body = Body::Len(n);
        } else if h.name.bytes.eq_ignore_ascii_case(b"transfer-encoding") && h.value.bytes.eq_ignore_ascii_case(b"chunked") {
            body = Body::Chunked(vec![]);
        }
    }
    Ok(body)
}

impl<'a> Exec<'a> {
    pub fn new(arena: &'a mut Arena, stats: &'a mut Stats, t: &'a Trace, mask: u32, log: bool) -> Exec<'a> {
        Exec { arena, mask, stats, viol: Vec::new(), log: if log { Some(Vec::new()) } else { None }, rk: Rng::new(t.knob_seed), t, ncall: 0, ilv: 0 }
    }
    fn on(&self, p: usize) -> bool {
        self.mask & pbit(p) != 0
    }
    fn push(&mut self, prop: usize, oracle: &'static str, detail: String) {
        if self.on(prop) {
            self.viol.push(Violation { prop, oracle, detail: format!("call#{}: {}", self.ncall, detail) });
        }
    }
    fn logln(&mut self, s: String) {
        if let Some(l) = self.log.as_mut() {
            l.push(s);
        }
    }

    /// A bare call on a fresh value: no monitors, no model. Used for differential re-issues.
    fn raw(&mut self, spec: &CallSpec, data: &[u8], place: Place, future: &[u8]) -> Obs {
        let m = self.arena.mark();
        let buf = self.arena.place(data, place, future);
        let mut s = Session::new();
        let o = s.call(self.arena, spec, buf, false);
        drop(s);
        // the observation owns copies of everything; the placement can be recycled
        self.arena.release(m);
        o
    }

    fn spec(&self, kind: Kind, entry: u8, cfg: u8, cap: usize) -> CallSpec {
        CallSpec { kind, entry: if kind == Kind::Req || kind == Kind::Resp { entry } else { 0 }, cfg, cap, backend: self.t.backend, arr_guard: self.t.arr_guard, alloc_mode: self.t.alloc_mode }
    }

    /// One fully checked parse call.
    #[allow(clippy::too_many_arguments)]
    pub fn checked(&mut self, sess: &mut Session, spec: &CallSpec, data: &[u8], place: Place, future: &[u8], keep: bool, scen: Scen) -> Obs {
        self.checked_at(sess, spec, data, None, place, future, keep, scen)
    }

    /// As `checked`, but the data may already sit in memory the executor owns (`preplaced`).
    #[allow(clippy::too_many_arguments)]
    pub fn checked_at(&mut self, sess: &mut Session, spec: &CallSpec, data: &[u8], preplaced: Option<&'static [u8]>, place: Place, future: &[u8], keep: bool, scen: Scen) -> Obs {
        self.ncall += 1;
        let fresh = !sess.has_value();
        let buf = match preplaced {
            Some(b) => b,
            None => self.arena.place(data, place, future),
        };
        let obs = sess.call(self.arena, spec, buf, keep);
        let kind = spec.kind;
        self.stats.calls += 1;
        self.stats.max_len = self.stats.max_len.max(data.len());
        self.stats.entry_seen[kind as usize][spec.entry as usize] += 1;
        self.stats.cfg_seen[spec.cfg as usize] += 1;
        self.stats.backend_seen[spec.backend as usize] += 1;
        self.stats.ticks += obs.work.2 + obs.work.3;
        let cap = obs.eff_cap;
        let (mst, msize, mout) = run_model(kind, data, spec.cfg, cap);
        // signature of the state reached
        let nontrivial = mout.end_state > es::METHOD || mst != St::Partial || kind == Kind::Hdrs || kind == Kind::Chunk;
        if nontrivial && data.len() > 1 {
            let sig = mix(
                (scen as u64)
                    | (kind as u64) << 3
                    | (spec.cfg as u64) << 5
                    | (cap.min(3) as u64) << 12
                    | (spec.entry as u64) << 14
                    | (spec.backend as u64) << 16
                    | (place.mode as u64) << 18
                    | ((data.len() % 32) as u64) << 20
                    | ((place.align % 32) as u64) << 25
                    | (mout.end_state as u64) << 30
                    | (obs.st.class() as u64) << 36,
            );
            self.stats.sigs.insert(sig);
        }
        *self.stats.outcomes.entry(format!("{}:{}", kind.name(), outcome_name(&obs.st))).or_insert(0) += 1;
        self.reach_probes(kind, data, spec, &mst, &mout, &obs);
        if self.log.is_some() {
            let line = format!(
                "  call#{} {} entry={} cfg={:#04x} cap={} len={} place={:?}/{}/{:?} backend={} -> {:?} digest={:016x} work={:?}",
                self.ncall, kind.name(), spec.entry, spec.cfg, cap, data.len(), place.mode, place.align, place.tail, spec.backend, obs.st, obs_digest(&obs), obs.work
            );
            self.logln(line);
        }
        self.ilv = mix(self.ilv ^ (obs.st.class() as u64) << 8 ^ kind as u64);

        // ---- C01 totality
        self.stats.evaluations[1] += 1;
        if obs.st == St::Panic {
            self.push(1, "M-total", format!("{} panicked: {}", kind.name(), obs.panic_msg.clone().unwrap_or_default()));
            return obs;
        }
        // ---- model refinement with attribution
        let mut v = Vec::new();
        refine(kind, data, spec.cfg, &obs, mst, msize, &mout, &mut v);
        for p in [2usize, 3, 6, 7, 8, 9, 10, 11, 14, 17] {
            let relevant = match p {
                6 => kind == Kind::Req,
                7 => kind == Kind::Resp,
                9 => kind == Kind::Chunk,
                8 | 14 | 10 => kind != Kind::Chunk,
                17 | 3 => false, // counted by M-store / M-frame
                _ => true,
            };
            if relevant {
                self.stats.evaluations[p] += 1;
            }
        }
        // ---- per-call monitors
        if self.on(5) {
            m_hyg(kind, data, spec.cfg, &obs, &mut v);
            self.stats.evaluations[5] += 1;
        }
        if self.on(4) {
            m_ptr(kind, &obs, fresh, &mut v);
            self.stats.evaluations[4] += 1;
        }
        if self.on(3) {
            m_frame(kind, data, spec.cfg, &obs, &mut v);
            self.stats.evaluations[3] += 1;
        }
        if self.on(17) {
            let mc = if mst.is_complete() { Some(mout.headers.len()) } else { None };
            m_store(kind, &obs, mc, &mut v);
            self.stats.evaluations[17] += 1;
        }
        if self.on(18) && keep && (kind == Kind::Req || kind == Kind::Resp) && matches!(obs.st, St::Partial | St::Err(_)) {
            // what the next call on this kept value will see: a non-Complete call must leave the
            // length of `headers` as it found it (restored by the init wrappers, untouched by the
            // uninit ones), or the next outcome depends on this call having happened
            let changed = if obs.uninit { !obs.headers_untouched } else { obs.hdr_len != obs.eff_cap };
            if changed {
                v.push(Violation { prop: 18, oracle: "history-leaves-capacity", detail: format!("after {:?} on a kept value `headers` has length {} (the call found {}): the next parse on this value sees a different capacity than a fresh value would", obs.st, obs.hdr_len, obs.eff_cap) });
            }
            self.stats.evaluations[18] += 1;
        }
        if self.on(19) && spec.alloc_mode & 3 != 0 {
            m_alloc(&obs, &mut v);
            self.stats.evaluations[19] += 1;
        }
        if self.on(20) {
            m_work(&obs, &mut v);
            self.stats.evaluations[20] += 1;
        }
        for x in v {
            self.push(x.prop, x.oracle, format!("{} | input {}", x.detail, brief(data)));
        }
        // ---- sampled differential re-issues of the same call under a changed knob
        self.differentials(sess, spec, data, place, future, &obs, fresh, &mout);
        obs
    }

    fn reach_probes(&mut self, kind: Kind, data: &[u8], spec: &CallSpec, mst: &St, mout: &model::Out, obs: &Obs) {
        let s = &mut *self.stats;
        match mst {
            St::Partial => match mout.end_state {
                es::FOLD_PENDING => s.probe("partial:fold-pending-at-end-of-buffer"),
                es::IGNORED | es::IGNORED_CR => s.probe("partial:inside-ignored-line"),
                es::VERSION => s.probe("partial:inside-version"),
                es::TARGET => s.probe("partial:inside-target"),
                es::LEAD_WS => s.probe("partial:leading-ws-before-first-header"),
                es::VALUE_CR | es::FINAL_CR => s.probe("partial:after-cr"),
                _ => {}
            },
            St::Err(E::TooManyHeaders) => {
                s.probe("err:too-many-headers");
                if obs.eff_cap == 0 {
                    s.probe("cap0-with-headers-present");
                }
            }
            St::Complete(_) => {
                if mout.ignored > 0 {
                    s.probe("complete:with-ignored-lines");
                }
                if let Some((_, _, true)) = mout.reason {
                    s.probe("complete:reason-reported-empty");
                }
                if mout.headers.len() == obs.eff_cap && obs.eff_cap > 0 {
                    s.probe("complete:array-exactly-full");
                }
                for (n, v) in &mout.headers {
                    let (nl, vl) = (n.1 - n.0, v.1 - v.0);
                    if nl >= 32 || vl >= 32 {
                        s.probe("token>=32 (avx2 loop iterates)");
                    } else if nl >= 16 || vl >= 16 {
                        s.probe("token 16..31 (sse4.2 only)");
                    }
                    if data[v.0..v.1].contains(&b'\t') {
                        s.probe("htab-inside-value");
                    }
                    if data[v.0..v.1].contains(&b'\n') {
                        s.probe("folded-value-with-interior-line-break");
                    }
                }
                if let Some(p) = mout.path {
                    if p.1 - p.0 >= 32 {
                        s.probe("target>=32");
                    }
                    if data[p.0..p.1].iter().any(|&b| b >= 0x80) {
                        s.probe("target-with-multibyte-utf8");
                    }
                }
            }
            St::Err(e) => {
                let name: &'static str = match e {
                    E::HeaderName => "err:header-name",
                    E::HeaderValue => "err:header-value",
                    E::NewLine => "err:new-line",
                    E::Status => "err:status",
                    E::Token => "err:token",
                    E::Version => "err:version",
                    E::Chunk => "err:invalid-chunk-size",
                    E::TooManyHeaders => "err:too-many-headers",
                };
                s.probe(name);
            }
            St::Panic => {}
        }
        if kind == Kind::Chunk {
            let digits = data.iter().take_while(|b| b.is_ascii_hexdigit()).count();
            if digits >= 17 {
                s.probe("chunk:17+digits");
            }
            if digits == 16 {
                s.probe("chunk:16-digits");
            }
            if digits == 0 && !data.is_empty() {
                s.probe("chunk:zero-digits");
            }
        }
        if spec.entry >= 2 && (kind == Kind::Req || kind == Kind::Resp) {
            s.probe("uninit-entry-point");
        }
    }

    #[allow(clippy::too_many_arguments)]
    fn differentials(&mut self, _sess: &mut Session, spec: &CallSpec, data: &[u8], place: Place, future: &[u8], obs: &Obs, fresh: bool, mout: &model::Out) {
        let kind = spec.kind;
        let msg = kind == Kind::Req || kind == Kind::Resp;
        // the call as a fresh-value call with the capacity the parser actually saw
        let base = CallSpec { cap: obs.eff_cap, ..*spec };

        // ---- C01 M-tail / C13 placement + backend independence
        if (self.on(1) || self.on(13)) && self.rk.chance(if self.on(13) { 5 } else { 2 }, 8) {
            let other = match self.rk.below(3) {
                0 => Place::END,
                1 => Place { mode: Mode::Mid, align: self.rk.below(64) as u8, tail: *self.rk.pick(&[Tail::Stale, Tail::Bait, Tail::Future]) },
                _ => Place { mode: Mode::StartGuard, align: 0, tail: *self.rk.pick(&[Tail::Stale, Tail::Bait]) },
            };
            let mut sp = base;
            if self.on(13) && crate::sut::HAS_BACKEND_SEAM {
                sp.backend = self.rk.below(4) as u8;
            }
            // a reused value's stale start-line fields are not part of this comparison: compare
            // against a fresh call with the same knobs first
            let a = if fresh { obs.clone() } else { self.raw(&base, data, place, future) };
            let b = self.raw(&sp, data, other, future);
            self.stats.evaluations[13] += 1;
            if let Some(d) = same_full(&a, &b) {
                let what = format!(
                    "same call, placement {:?}/{}/{:?} backend {} vs placement {:?}/{}/{:?} backend {}: {} | input {}",
                    place.mode, place.align, place.tail, base.backend, other.mode, other.align, other.tail, sp.backend, d, brief(data)
                );
                if sp.backend == base.backend {
                    self.push(1, "M-tail", what.clone());
                }
                self.push(13, "placement/backend-independence", what);
            }
        }
        // ---- C16 entry points agree
        if self.on(16) && kind != Kind::Chunk && self.rk.chance(3, 8) {
            if msg {
                let entries: &[u8] = if spec.cfg == 0 { &[0, 1, 2, 3] } else { &[1, 3] };
                let a = if fresh { obs.clone() } else { self.raw(&base, data, place, future) };
                for &e in entries {
                    if e == base.entry {
                        continue;
                    }
                    let sp = CallSpec { entry: e, ..base };
                    let b = self.raw(&sp, data, place, future);
                    self.stats.evaluations[16] += 1;
                    if let Some(d) = same_full(&a, &b) {
                        self.push(16, "entry-point-agreement", format!("{} vs {}: {} | cfg {:#04x} cap {} input {}", crate::sut::ENTRY_NAMES[kind as usize][base.entry as usize], crate::sut::ENTRY_NAMES[kind as usize][e as usize], d, spec.cfg, base.cap, brief(data)));
                    }
                }
                // parse_headers(h) agrees with the header part (default options only)
                if spec.cfg & (1 | 2 | 16 | 32 | 64) == 0 {
                    if let Some(hs) = mout.hdr_start {
                        // (the reference model got past the start line, so the header part is well defined)
                        if hs <= data.len() {
                            let hsp = CallSpec { kind: Kind::Hdrs, entry: 0, ..base };
                            let b = self.raw(&hsp, &data[hs..], place, future);
                            self.stats.evaluations[16] += 1;
                            let ok = match (a.st, b.st) {
                                (St::Complete(n), St::Complete(m)) => {
                                    n == m + hs
                                        && a.headers.len() == b.headers.len()
                                        && a.headers.iter().zip(b.headers.iter()).all(|(x, y)| x.name.bytes == y.name.bytes && x.value.bytes == y.value.bytes && x.name.off == y.name.off + hs)
                                }
                                (x, y) => x == y,
                            };
                            if !ok {
                                self.push(16, "parse_headers-agreement", format!("message parse {:?} with {} headers vs parse_headers on the header part (offset {}) {:?} with {} headers | input {}", a.st, a.headers.len(), hs, b.st, b.headers.len(), brief(data)));
                            }
                        }
                    }
                }
            }
        }
        // ---- C18 reused value behaves like a fresh one
        if self.on(18) && msg && !fresh {
            let b = self.raw(&base, data, place, future);
            self.stats.evaluations[18] += 1;
            if let Some(d) = same_status_and_complete(obs, &b) {
                self.push(18, "reused-vs-fresh", format!("reused value vs fresh value of capacity {}: {} | input {}", base.cap, d, brief(data)));
            }
        }
        // ---- C15 options are conservative; other-kind options inert
        if self.on(15) && msg && self.rk.chance(2, 8) {
            let other_mask: u8 = if kind == Kind::Req { !model::REQ_RELEVANT & 0x7f } else { !model::RESP_RELEVANT & 0x7f };
            // (b) any buffer: flipping only other-kind options changes nothing
            let flip = (self.rk.below(128) as u8) & other_mask;
            if flip != 0 {
                let sp = CallSpec { cfg: spec.cfg ^ flip, entry: if base.entry >= 2 { 3 } else { 1 }, ..base };
                let a = self.raw(&CallSpec { entry: sp.entry, ..base }, data, place, future);
                let b = self.raw(&sp, data, place, future);
                self.stats.evaluations[15] += 1;
                if let Some(d) = same_full(&a, &b) {
                    self.push(15, "other-kind-options-inert", format!("cfg {:#04x} vs {:#04x} (only options of the other message kind differ): {} | input {}", spec.cfg, sp.cfg, d, brief(data)));
                }
            }
            // (a) accepted by the default config => identical under every config
            let d0 = self.raw(&CallSpec { cfg: 0, entry: 1, ..base }, data, place, future);
            if d0.st.is_complete() {
                let all = self.t.scen != Scen::Adversarial && self.rk.chance(1, 4);
                let n = if all { 128 } else { 10 };
                for i in 0..n {
                    let c = if all { i as u8 } else { self.rk.below(128) as u8 };
                    if c == 0 {
                        continue;
                    }
                    let b = self.raw(&CallSpec { cfg: c, entry: 1, ..base }, data, place, future);
                    self.stats.evaluations[15] += 1;
                    // sole exception: response multi-space strips leading SP from the reason
                    let mut want = d0.clone();
                    if kind == Kind::Resp && c & 8 != 0 {
                        if let Some(r) = want.reason.as_mut() {
                            let k = r.bytes.iter().take_while(|&&x| x == b' ').count();
                            r.bytes.drain(..k);
                            r.off += k;
                            r.len -= k;
                        }
                    }
                    if let Some(d) = same_full(&want, &b) {
                        self.push(15, "conservative-extension", format!("default config gives {:?}, cfg {:#04x} differs: {} | input {}", d0.st, c, d, brief(data)));
                        break;
                    }
                }
            }
        }
        // ---- C17 capacity law
        if self.on(17) && kind != Kind::Chunk && self.rk.chance(2, 8) {
            self.capacity_law(&base, data, place, future);
        }
        // ---- C11 honest Partial
        if self.on(11) && obs.st == St::Partial && self.rk.chance(if self.t.scen == Scen::Sweep { 3 } else { 2 }, 8) {
            self.completion_search(&base, data, mout);
        }
    }

    fn capacity_law(&mut self, base: &CallSpec, data: &[u8], place: Place, future: &[u8]) {
        let lf = data.iter().filter(|&&b| b == b'\n').count();
        let inf_cap = lf + 2;
        if inf_cap > 300 {
            return;
        }
        let inf = self.raw(&CallSpec { cap: inf_cap, ..*base }, data, place, future);
        // independent count of well-formed header lines completed before the unlimited run stopped
        let (_mst, _, mout) = run_model(base.kind, data, base.cfg, inf_cap);
        let k = mout.headers.len();
        let mut h: Option<usize> = None;
        for n in 0..=(k + 2).min(inf_cap) {
            let o = self.raw(&CallSpec { cap: n, ..*base }, data, place, future);
            self.stats.evaluations[17] += 1;
            let is_tmh = o.st == St::Err(E::TooManyHeaders);
            match h {
                None => {
                    if !is_tmh {
                        h = Some(n);
                        if let Some(d) = same_full(&inf, &o) {
                            self.push(17, "capacity-law", format!("capacity {} is the first not to give TooManyHeaders but differs from unlimited capacity: {} | cfg {:#04x} input {}", n, d, base.cfg, brief(data)));
                            return;
                        }
                    }
                }
                Some(_) => {
                    if is_tmh && inf.st != St::Err(E::TooManyHeaders) {
                        self.push(17, "capacity-law", format!("TooManyHeaders with capacity {} although a smaller capacity sufficed (not a step) | input {}", n, brief(data)));
                        return;
                    }
                    if let Some(d) = same_full(&inf, &o) {
                        self.push(17, "capacity-law", format!("capacity {} differs from unlimited capacity: {} | cfg {:#04x} input {}", n, d, base.cfg, brief(data)));
                        return;
                    }
                }
            }
        }
        if let Some(hh) = h {
            // TooManyHeaders exactly for capacities below the number of completed lines
            if hh != k && inf.st != St::Err(E::TooManyHeaders) {
                // with unlimited capacity the run completed k lines; capacity hh < k sufficing, or
                // hh > k needed, both break the law
                self.push(17, "capacity-law", format!("first sufficient capacity is {} but {} header lines were completed (reference count) | cfg {:#04x} input {}", hh, k, base.cfg, brief(data)));
            }
        }
    }

    fn completion_search(&mut self, base: &CallSpec, data: &[u8], mout: &model::Out) {
        let kind = base.kind;
        // stated exception: an unterminated request target that is not valid UTF-8 so far
        if kind == Kind::Req && mout.end_state == es::TARGET {
            let start = mout.method.map(|m| m.1 + 1).unwrap_or(0);
            let mut p = start.min(data.len());
            while p < data.len() && data[p] == b' ' {
                p += 1;
            }
            if std::str::from_utf8(&data[p..]).is_err() {
                self.stats.skip("C11: unterminated request target not valid UTF-8 (stated exception)");
                return;
            }
        }
        let lf = data.iter().filter(|&&b| b == b'\n').count();
        let cap = lf + 4;
        if (cap > 400 && kind != Kind::Chunk) || data.len() > 300_000 {
            return;
        }
        // long buffers: the search costs 4..162 re-parses of the whole buffer; sample them
        if data.len() > 4096 && kind != Kind::Chunk && !self.rk.chance(1, 6) {
            return;
        }
        let sp = CallSpec { cap, ..*base };
        // with unlimited capacity the state must still be Partial for the search to apply
        let again = self.raw(&sp, data, Place::END, &[]);
        if again.st != St::Partial {
            return;
        }
        self.stats.evaluations[11] += 1;
        let mut buf2 = Vec::with_capacity(data.len() + 16);
        let mut model_can = false;
        for s in completions(kind) {
            buf2.clear();
            buf2.extend_from_slice(data);
            buf2.extend_from_slice(&s);
            let o = self.raw(&sp, &buf2, Place::END, &[]);
            if o.st.is_complete() {
                return;
            }
            if !model_can {
                let (m, _, _) = run_model(kind, &buf2, sp.cfg, cap);
                model_can = m.is_complete();
            }
        }
        if model_can {
            self.push(11, "completion-search", format!("Partial, but no continuation from the completion set yields Complete (the reference model completes it) | cfg {:#04x} input {}", base.cfg, brief(data)));
        } else {
            self.stats.skip("C11: completion set has no completion for this state (model agrees) — not judged");
        }
    }

    // -----------------------------------------------------------------------------------------
    // conn scenario

    fn deliver(&mut self, sess: &mut Session, c: &Conn, rx: &mut Receiver, upto: usize, place: Place, eof: bool) {
        let t = self.t;
        if c.stable && !c.wire.is_empty() {
            if rx.stable.is_none() {
                rx.stable = Some((self.arena.stable(c.wire.len()), 0));
                *self.stats.faults_fired.entry("stable_buffer").or_insert(0) += 1;
            }
            let (base, filled) = rx.stable.unwrap();
            if upto > filled {
                // SAFETY: [filled, upto) lies inside the stable region and no slice handed out so
                // far covers it (they all end at or before `filled`)
                unsafe { std::ptr::copy_nonoverlapping(c.wire.as_ptr().add(filled), base.add(filled), upto - filled) };
                rx.stable = Some((base, upto));
            }
        }
        loop {
            if rx.mode == RMode::Closed {
                return;
            }
            // a stream that decomposes into thousands of tiny messages (e.g. a body of CRLFs read
            // as empty header blocks) is cut off after a fixed number of them — a property of the
            // stream, not of how it was chunked, so both schedules stop at the same message
            if rx.hist.len() >= MSG_BUDGET && matches!(rx.mode, RMode::Head | RMode::ChunkSize) {
                rx.hist.push(HEv::End { consumed: rx.consumed, how: "message-budget".into() });
                rx.mode = RMode::Closed;
                return;
            }
            let avail = &c.wire[rx.consumed..upto];
            let future = &c.wire[upto..];
            if avail.is_empty() && rx.consumed > 0 {
                // nothing new to look at (message boundary reached exactly, or a zero-byte read)
                if eof {
                    let how = match rx.mode {
                        RMode::Head => "clean",
                        RMode::ChunkSize if t.kind == Kind::Chunk => "clean",
                        RMode::ChunkSize => "eof-in-chunk-size",
                        RMode::Trailer => "eof-in-head",
                        RMode::ChunkCrlf => "eof-in-chunk-crlf",
                        RMode::ChunkData(_) => "eof-in-chunk-data",
                        _ => "eof-in-body",
                    };
                    rx.hist.push(HEv::End { consumed: rx.consumed, how: how.into() });
                    rx.mode = RMode::Closed;
                }
                return;
            }
            match rx.mode {
                RMode::Head | RMode::Trailer => {
                    let kind = if rx.mode == RMode::Trailer { Kind::Hdrs } else { t.kind };
                    let spec = self.spec(kind, t.entry, if kind == Kind::Hdrs { 0 } else { t.cfg }, t.cap);
                    let keep = match t.reuse {
                        0 => false,
                        _ => true,
                    };
                    // SAFETY: the stable region holds wire[..upto] and lives until the run ends
                    let pre = rx.stable.map(|(base, _)| unsafe { std::slice::from_raw_parts(base.add(rx.consumed) as *const u8, upto - rx.consumed) });
                    let obs = self.checked_at(sess, &spec, avail, pre, place, future, keep, Scen::Conn);
                    match obs.st {
                        St::Partial => {
                            if eof {
                                rx.hist.push(HEv::End { consumed: rx.consumed, how: "eof-in-head".into() });
                                rx.mode = RMode::Closed;
                            }
                            return;
                        }
                        St::Complete(n) => {
                            if t.reuse == 1 {
                                sess.forget();
                            }
                            if n > avail.len() {
                                // reported by M-frame; the receiver cannot go on
                                rx.hist.push(HEv::End { consumed: rx.consumed, how: "complete-beyond-buffer".into() });
                                rx.mode = RMode::Closed;
                                return;
                            }
                            rx.consumed += n;
                            if rx.mode == RMode::Trailer {
                                rx.hist.push(HEv::Trailer { n, digest: head_digest(&obs) });
                                rx.mode = if t.kind == Kind::Chunk { RMode::ChunkSize } else { RMode::Head };
                            } else {
                                rx.hist.push(HEv::Head { n, digest: head_digest(&obs) });
                                match framing_of(&obs) {
                                    Ok(Body::None) => rx.mode = RMode::Head,
                                    Ok(Body::Len(0)) => {
                                        rx.hist.push(HEv::Body(0));
                                        rx.mode = RMode::Head
                                    }
                                    Ok(Body::Len(k)) => {
                                        rx.body_acc = 0;
                                        rx.mode = RMode::Body(k)
                                    }
                                    Ok(Body::Chunked(_)) => rx.mode = RMode::ChunkSize,
                                    Err(()) => {
                                        rx.hist.push(HEv::End { consumed: rx.consumed, how: "bad-content-length".into() });
                                        rx.mode = RMode::Closed;
                                    }
                                }
                                rx.heads.push(obs);
                            }
                        }
                        St::Err(e) => {
                            rx.hist.push(HEv::End { consumed: rx.consumed, how: format!("error-{:?}", e) });
                            rx.mode = RMode::Closed;
                            if t.reuse == 1 {
                                sess.forget();
                            }
                            return;
                        }
                        St::Panic => {
                            rx.hist.push(HEv::End { consumed: rx.consumed, how: "panic".into() });
                            rx.mode = RMode::Closed;
                            return;
                        }
                    }
                }
                RMode::Body(rem) => {
                    let take = rem.min(avail.len());
                    rx.consumed += take;
                    rx.body_acc += take;
                    if take == rem {
                        rx.hist.push(HEv::Body(rx.body_acc));
                        rx.mode = RMode::Head;
                    } else {
                        rx.mode = RMode::Body(rem - take);
                        if eof {
                            rx.hist.push(HEv::End { consumed: rx.consumed, how: "eof-in-body".into() });
                            rx.mode = RMode::Closed;
                        }
                        return;
                    }
                }
                RMode::ChunkSize => {
                    let spec = self.spec(Kind::Chunk, 0, 0, 0);
                    let mut s2 = Session::new();
                    // SAFETY: as above
                    let pre = rx.stable.map(|(base, _)| unsafe { std::slice::from_raw_parts(base.add(rx.consumed) as *const u8, upto - rx.consumed) });
                    let obs = self.checked_at(&mut s2, &spec, avail, pre, place, future, false, Scen::Conn);
                    match obs.st {
                        St::Partial => {
                            if eof {
                                rx.hist.push(HEv::End { consumed: rx.consumed, how: "eof-in-chunk-size".into() });
                                rx.mode = RMode::Closed;
                            }
                            return;
                        }
                        St::Complete(n) => {
                            if n > avail.len() {
                                rx.hist.push(HEv::End { consumed: rx.consumed, how: "complete-beyond-buffer".into() });
                                rx.mode = RMode::Closed;
                                return;
                            }
                            rx.consumed += n;
                            rx.hist.push(HEv::ChunkLine { n, size: obs.chunk });
                            if obs.chunk == 0 {
                                rx.mode = RMode::Trailer;
                            } else {
                                rx.chunk_acc = 0;
                                rx.mode = RMode::ChunkData(obs.chunk);
                            }
                        }
                        _ => {
                            rx.hist.push(HEv::End { consumed: rx.consumed, how: "error-InvalidChunkSize".into() });
                            rx.mode = RMode::Closed;
                            return;
                        }
                    }
                }
                RMode::ChunkData(rem) => {
                    let take = (rem.min(avail.len() as u64)) as usize;
                    rx.consumed += take;
                    rx.chunk_acc += take as u64;
                    if take as u64 == rem {
                        rx.hist.push(HEv::ChunkData(rx.chunk_acc));
                        rx.mode = RMode::ChunkCrlf;
                    } else {
                        rx.mode = RMode::ChunkData(rem - take as u64);
                        if eof {
                            rx.hist.push(HEv::End { consumed: rx.consumed, how: "eof-in-chunk-data".into() });
                            rx.mode = RMode::Closed;
                        }
                        return;
                    }
                }
                RMode::ChunkCrlf => {
                    if avail.len() < 2 {
                        if eof {
                            rx.hist.push(HEv::End { consumed: rx.consumed, how: "eof-in-chunk-crlf".into() });
                            rx.mode = RMode::Closed;
                        }
                        return;
                    }
                    if &avail[..2] != b"\r\n" {
                        rx.hist.push(HEv::End { consumed: rx.consumed, how: "bad-chunk-terminator".into() });
                        rx.mode = RMode::Closed;
                        return;
                    }
                    rx.consumed += 2;
                    rx.mode = RMode::ChunkSize;
                }
                RMode::Closed => return,
            }
        }
    }

    fn new_rx(&self) -> Receiver {
        Receiver { consumed: 0, mode: if self.t.kind == Kind::Chunk { RMode::ChunkSize } else { RMode::Head }, hist: Vec::new(), body_acc: 0, chunk_acc: 0, heads: Vec::new(), stable: None }
    }

    pub fn run_conn(&mut self) {
        let t = self.t;
        let n = t.conns.len();
        let mut rxs: Vec<Receiver> = (0..n).map(|_| self.new_rx()).collect();
        let mut sessions: Vec<Session> = (0..n.max(1)).map(|_| Session::new()).collect();
        let mut next = vec![0usize; n];
        let mut last_time = 0u64;
        for &ci in &t.order {
            let ci = ci as usize;
            if ci >= n || next[ci] >= t.conns[ci].deliveries.len() {
                continue;
            }
            let d = t.conns[ci].deliveries[next[ci]];
            next[ci] += 1;
            let eof = next[ci] == t.conns[ci].deliveries.len();
            let upto = d.upto.min(t.conns[ci].wire.len());
            last_time = last_time.max(d.time_us);
            if self.log.is_some() {
                self.logln(format!("t={}us conn{} deliver upto={} eof={}", d.time_us, ci, upto, eof));
            }
            self.ilv = mix(self.ilv ^ (ci as u64 + 1) << 16);
            let si = if t.reuse == 3 { 0 } else { ci };
            // split borrows: take the session out while delivering
            let mut sess = std::mem::replace(&mut sessions[si], Session::new());
            let mut rx = std::mem::replace(&mut rxs[ci], self.new_rx());
            if upto >= rx.consumed {
                self.deliver(&mut sess, &t.conns[ci], &mut rx, upto, d.place, eof);
            }
            rxs[ci] = rx;
            sessions[si] = sess;
        }
        self.stats.sim_time_us += last_time;
        self.stats.interleavings.insert(self.ilv);
        // ---- history-level checks
        for (ci, c) in t.conns.iter().enumerate() {
            let hist = rxs[ci].hist.clone();
            if self.log.is_some() {
                self.logln(format!("conn{} history: {:?}", ci, hist));
            }
            // C02: chunking invariance — the same wire under an independent schedule, fresh values
            if self.on(2) && !c.alt.is_empty() && t.reuse != 3 {
                let mut rx2 = self.new_rx();
                let mut s2 = Session::new();
                let k = c.alt.len();
                for (i, &u) in c.alt.iter().enumerate() {
                    let u = u.min(c.wire.len());
                    if u >= rx2.consumed {
                        self.deliver(&mut s2, c, &mut rx2, u, Place::END, i + 1 == k);
                    }
                }
                self.stats.evaluations[2] += 1;
                if rx2.hist != hist && c.deliveries.last().map(|d| d.upto) == c.alt.last().copied() {
                    // shrinking capacity of a value kept across messages is a legitimate difference
                    if !(t.reuse == 2 && t.entry < 2) {
                        let first = hist.iter().zip(rx2.hist.iter()).position(|(a, b)| a != b).unwrap_or(hist.len().min(rx2.hist.len()));
                        self.push(2, "chunking-invariance", format!("conn{}: connection history depends on how the stream was chunked; first difference at event {}: {:?} vs {:?}", ci, first, hist.get(first), rx2.hist.get(first)));
                    }
                }
            }
            // C03 / C09: sender truth — exactly once, in order, conservation
            if (self.on(3) || self.on(9) || self.on(6) || self.on(7) || self.on(8)) && !c.truth.is_empty() {
                self.sender_truth(ci, c, &rxs[ci]);
            }
        }
    }

    fn sender_truth(&mut self, ci: usize, c: &Conn, rx: &Receiver) {
        let t = self.t;
        let mut hi = 0usize;
        let mut head_i = 0usize;
        let cap_may_bind = !(t.reuse <= 1 || t.entry >= 2);
        for (mi, m) in c.truth.iter().enumerate() {
            if !m.strict {
                return; // meaning depends on the configuration from here on
            }
            if t.kind != Kind::Chunk {
                // the head
                match rx.hist.get(hi) {
                    Some(HEv::Head { n, .. }) => {
                        self.stats.evaluations[3] += 1;
                        if *n != m.head_len {
                            self.push(3, "sender-truth", format!("conn{} message {}: receiver ended the head at {} but the sender's head is {} bytes", ci, mi, n, m.head_len));
                            return;
                        }
                        let o = &rx.heads[head_i];
                        head_i += 1;
                        let prop = match t.kind {
                            Kind::Req => 6,
                            Kind::Resp => 7,
                            _ => 8,
                        };
                        let mut bad: Option<String> = None;
                        if t.kind == Kind::Req {
                            if o.method.as_ref().map(|f| &f.bytes) != Some(&m.method) || o.path.as_ref().map(|f| &f.bytes) != Some(&m.path) || o.version != Some(m.version) {
                                bad = Some("request line fields differ from what the sender wrote".into());
                            }
                        } else if t.kind == Kind::Resp {
                            if o.version != Some(m.version) || o.code != Some(m.code) || o.reason.as_ref().map(|f| &f.bytes) != Some(&m.reason) {
                                bad = Some(format!("status line fields differ from what the sender wrote: code {:?} vs {}, reason {:?} vs {:?}", o.code, m.code, o.reason.as_ref().map(|f| crate::json::show(&f.bytes)), crate::json::show(&m.reason)));
                            }
                        }
                        if let Some(b) = bad {
                            self.push(prop, "sender-truth", format!("conn{} message {}: {}", ci, mi, b));
                        }
                        let got: Vec<(Vec<u8>, Vec<u8>)> = o.headers.iter().map(|h| (h.name.bytes.clone(), h.value.bytes.clone())).collect();
                        if got != m.headers {
                            self.push(8, "sender-truth", format!("conn{} message {}: reported headers differ from the lines the sender wrote ({} vs {})", ci, mi, got.len(), m.headers.len()));
                        }
                        hi += 1;
                    }
                    Some(HEv::End { how, .. }) => {
                        // legitimate only if capacity binds or the stream was cut
                        let cut = c.faults.iter().any(|f| f.kind == "eof") || !c.faults.is_empty() || how == "message-budget";
                        let cap_small = m.headers.len() > t.cap || cap_may_bind;
                        if !(cut || (how == "error-TooManyHeaders" && cap_small)) {
                            // an error verdict on an intact strict message is a grammar violation; a
                            // stream that merely stalls (Partial for ever) is a framing one
                            let prop = if how.starts_with("error-") {
                                match t.kind {
                                    Kind::Req => 6,
                                    Kind::Resp => 7,
                                    _ => 8,
                                }
                            } else {
                                3
                            };
                            self.push(prop, "sender-truth", format!("conn{} message {}: connection ended with {} although the sender's stream is intact", ci, mi, how));
                        }
                        return;
                    }
                    other => {
                        if other.is_some() {
                            self.push(3, "sender-truth", format!("conn{} message {}: expected a head, history has {:?}", ci, mi, other));
                        }
                        return;
                    }
                }
            }
            // the body
            match &m.body {
                Body::None => {}
                Body::Len(k) => match rx.hist.get(hi) {
                    Some(HEv::Body(b)) if b == k => hi += 1,
                    Some(HEv::End { .. }) | None => return,
                    other => {
                        // the head end was just verified against the sender's; a body that is
                        // framed differently means the framing headers were misreported (C08)
                        self.push(8, "sender-truth", format!("conn{} message {}: body of {} bytes, receiver saw {:?}", ci, mi, k, other));
                        return;
                    }
                },
                Body::Chunked(sizes) => {
                    for (k, &s) in sizes.iter().chain(std::iter::once(&0u64)).enumerate() {
                        match rx.hist.get(hi) {
                            Some(HEv::ChunkLine { size, .. }) => {
                                self.stats.evaluations[9] += 1;
                                if *size != s {
                                    self.push(9, "sender-truth", format!("conn{} message {} chunk {}: receiver read size {} but the sender wrote {}", ci, mi, k, size, s));
                                    return;
                                }
                                hi += 1;
                            }
                            Some(HEv::End { how, .. }) => {
                                let cut = !c.faults.is_empty() || how == "message-budget";
                                if !cut {
                                    self.push(9, "sender-truth", format!("conn{} message {} chunk {}: connection ended with {} although the sender's stream is intact", ci, mi, k, how));
                                }
                                return;
                            }
                            None => return,
                            other => {
                                self.push(9, "sender-truth", format!("conn{} message {} chunk {}: expected a chunk-size line, history has {:?}", ci, mi, k, other));
                                return;
                            }
                        }
                        if s > 0 {
                            match rx.hist.get(hi) {
                                Some(HEv::ChunkData(d)) if *d == s => hi += 1,
                                Some(HEv::End { .. }) | None => return,
                                other => {
                                    self.push(9, "sender-truth", format!("conn{} message {} chunk {}: {} data bytes, receiver saw {:?}", ci, mi, k, s, other));
                                    return;
                                }
                            }
                        }
                    }
                    match rx.hist.get(hi) {
                        Some(HEv::Trailer { .. }) => hi += 1,
                        Some(HEv::End { .. }) | None => return,
                        other => {
                            self.push(3, "sender-truth", format!("conn{} message {}: expected the trailer block, history has {:?}", ci, mi, other));
                            return;
                        }
                    }
                }
            }
        }
        // conservation: an intact, fully delivered stream of strict messages is consumed exactly
        if c.faults.is_empty() && c.truth.iter().all(|m| m.strict) && c.deliveries.last().map(|d| d.upto) == Some(c.wire.len()) {
            let total: usize = c.truth.iter().map(|m| m.total).sum();
            if total == c.wire.len() {
                match rx.hist.last() {
                    Some(HEv::End { consumed, how }) if how == "clean" => {
                        if *consumed != c.wire.len() {
                            self.push(3, "conservation", format!("conn{}: clean end but {} of {} bytes consumed", ci, consumed, c.wire.len()));
                        }
                    }
                    Some(HEv::End { how, .. }) if how == "error-TooManyHeaders" || how == "message-budget" => {}
                    Some(HEv::End { how, consumed }) => {
                        self.push(3, "conservation", format!("conn{}: intact stream of strict messages ended with {} after {} of {} bytes", ci, how, consumed, c.wire.len()));
                    }
                    _ => {}
                }
            }
        }
    }

    // -----------------------------------------------------------------------------------------
    // prefix sweep: EOF injected at every point

    pub fn run_sweep(&mut self) {
        let t = self.t;
        let c = &t.conns[0];
        let b = &c.wire;
        let kind = t.kind;
        let mut decided: Option<(usize, Obs)> = None;
        let mut partial_fields: Vec<(usize, Obs)> = Vec::new();
        // every cut for ordinary heads; for long ones every cut near a structural byte, the first
        // and last 64, and a seeded sample of the rest
        let cuts: Vec<usize> = if b.len() <= 800 {
            (0..=b.len()).collect()
        } else {
            // threshold-probing runs use a lighter set (their point is the corrupted byte and the
            // end of the long element, both covered below)
            let (edge, max_marks, before, after, random) = if t.thresh { (24, 24, 9, 10, 60) } else { (64, 60, 34, 36, 200) };
            let mut c: Vec<usize> = (0..edge.min(b.len())).collect();
            c.extend(b.len().saturating_sub(edge)..=b.len());
            let mut marks = 0;
            for (i, &x) in b.iter().enumerate() {
                if matches!(x, b' ' | b':' | b'\r' | b'\n' | b'\t') && marks < max_marks {
                    if i == 0 || !matches!(b[i - 1], b' ' | b':' | b'\r' | b'\n' | b'\t') {
                        marks += 1;
                        c.extend(i.saturating_sub(before)..(i + after).min(b.len()));
                    }
                }
            }
            // every cut around a corrupted byte: a verdict must not wait for bytes behind it
            for f in &self.t.conns[0].faults {
                c.extend(f.at.saturating_sub(40).min(b.len())..(f.at + 72).min(b.len() + 1));
            }
            let mut r = Rng::new(t.knob_seed ^ 0xc0ffee);
            for _ in 0..random {
                c.push(r.below(b.len() + 1));
            }
            if let Some(m) = self.t.conns[0].truth.first() {
                // the cuts around the sender's head end are always looked at
                for d in 0..3 {
                    c.push((m.head_len + 1).saturating_sub(d).min(b.len()));
                }
            }
            c.sort_unstable();
            c.dedup();
            if c.len() > 6000 {
                let keep_tail: Vec<usize> = c[c.len() - 200..].to_vec();
                c.truncate(5800);
                c.extend(keep_tail);
            }
            c
        };
        for k in cuts {
            let place = match (k as u64 + t.knob_seed) % 4 {
                0 | 1 => Place::END,
                2 => Place { mode: Mode::Mid, align: ((k as u64 * 7 + t.knob_seed) % 64) as u8, tail: Tail::Future },
                _ => Place { mode: Mode::StartGuard, align: 0, tail: Tail::Bait },
            };
            let spec = self.spec(kind, t.entry, if kind == Kind::Req || kind == Kind::Resp { t.cfg } else { 0 }, t.cap);
            // a fresh value per cut: its placements can be recycled as soon as the call is observed
            // (thousands of cuts of a long head would otherwise exhaust the process's mappings)
            let m = self.arena.mark();
            let mut s = Session::new();
            let o = self.checked(&mut s, &spec, &b[..k], place, &b[k..], false, Scen::Sweep);
            drop(s);
            self.arena.release(m);
            if o.st == St::Panic {
                continue;
            }
            self.stats.evaluations[2] += 1;
            match &decided {
                None => {
                    if o.st == St::Partial {
                        if partial_fields.len() < 800 {
                            partial_fields.push((k, o));
                        }
                    } else {
                        // every start-line field reported with an earlier Partial has its final value
                        if o.st.is_complete() {
                            for (pk, p) in &partial_fields {
                                let mut d = None;
                                if let (Some(a), Some(bb)) = (&p.method, &o.method) {
                                    if a.bytes != bb.bytes || a.off != bb.off {
                                        d = Some("method");
                                    }
                                }
                                if let (Some(a), Some(bb)) = (&p.path, &o.path) {
                                    if a.bytes != bb.bytes || a.off != bb.off {
                                        d = Some("path");
                                    }
                                }
                                if let (Some(a), Some(bb)) = (p.version, o.version) {
                                    if a != bb {
                                        d = Some("version");
                                    }
                                }
                                if let (Some(a), Some(bb)) = (p.code, o.code) {
                                    if a != bb {
                                        d = Some("code");
                                    }
                                }
                                if let (Some(a), Some(bb)) = (&p.reason, &o.reason) {
                                    if a.bytes != bb.bytes {
                                        d = Some("reason");
                                    }
                                }
                                if let Some(f) = d {
                                    self.push(2, "partial-field-stability", format!("{} reported with Partial at cut {} differs from its value in the final result at cut {} | input {}", f, pk, k, brief(b)));
                                    break;
                                }
                            }
                        }
                        decided = Some((k, o));
                    }
                }
                Some((dk, d)) => {
                    let same = if d.st.is_complete() { same_full(d, &o) } else if d.st != o.st { Some(format!("status {:?} vs {:?}", d.st, o.st)) } else { None };
                    if let Some(diff) = same {
                        self.push(2, "prefix-monotonicity", format!("result at cut {} is {:?}, but after appending bytes (cut {}) it changed: {} | cfg {:#04x} cap {} input {}", dk, d.st, k, diff, t.cfg, t.cap, brief(b)));
                        break;
                    }
                }
            }
        }
        // appending garbage / the true continuation does not change a decided verdict
        if let Some((dk, d)) = &decided {
            let mut ext = b[..*dk].to_vec();
            let mut r = Rng::new(t.knob_seed ^ 0x51);
            for _ in 0..r.range(1, 40) {
                ext.push(if r.chance(1, 2) { r.byte() } else { *r.pick(crate::gen::PAL) });
            }
            let spec = self.spec(kind, t.entry, if kind == Kind::Req || kind == Kind::Resp { t.cfg } else { 0 }, t.cap);
            let o = self.raw(&spec, &ext, Place::END, &[]);
            self.stats.evaluations[2] += 1;
            let diff = if d.st.is_complete() { same_full(d, &o) } else if d.st != o.st { Some(format!("status {:?} vs {:?}", d.st, o.st)) } else { None };
            if let Some(diff) = diff {
                self.push(2, "prefix-monotonicity", format!("result at cut {} is {:?}, but with arbitrary bytes appended it changed: {} | input {}", dk, d.st, diff, brief(&ext)));
            }
        }
        // sender truth for an intact strict head: Complete exactly at head_len, Partial before
        if let (Some(m), true) = (c.truth.first(), c.faults.is_empty()) {
            if m.strict && m.headers.len() <= t.cap && m.start == 0 {
                self.stats.evaluations[3] += 1;
                let grammar_prop = match kind {
                    Kind::Req => 6,
                    Kind::Resp => 7,
                    Kind::Chunk => 9,
                    Kind::Hdrs => 8,
                };
                match &decided {
                    Some((dk, d)) if d.st == St::Complete(m.head_len) && *dk == m.head_len => {}
                    // rejected although valid: the accepted language is wrong, not the framing
                    Some((dk, d)) if matches!(d.st, St::Err(_)) => self.push(grammar_prop, "sender-truth", format!("intact strict head of {} bytes rejected at cut {} with {:?} | input {}", m.head_len, dk, d.st, brief(b))),
                    other => self.push(3, "sender-truth", format!("intact strict head of {} bytes: first decided result {:?} | input {}", m.head_len, other.as_ref().map(|(k, d)| (*k, d.st)), brief(b))),
                }
            }
        }
        self.stats.interleavings.insert(mix(decided.as_ref().map_or(0, |d| d.0 as u64) ^ (b.len() as u64) << 20));
    }

    // -----------------------------------------------------------------------------------------
    // reuse: a history of earlier calls on one value, then a probe

    pub fn run_reuse(&mut self) {
        let t = self.t;
        let mut sess = Session::new();
        let n = t.ops.len();
        let mut h = 0u64;
        let mut longest: Option<(*mut u8, Vec<u8>)> = None;
        let mut specs: Vec<(CallSpec, Option<&'static [u8]>, Place)> = Vec::new();
        let mut last: Option<Obs> = None;
        for (i, op) in t.ops.iter().enumerate() {
            let spec = CallSpec { kind: t.kind, entry: op.entry, cfg: op.cfg, cap: if i == 0 || op.entry >= 2 { if i == 0 && op.entry < 2 { t.cap } else { op.cap } } else { t.cap }, backend: t.backend, arr_guard: t.arr_guard, alloc_mode: t.alloc_mode };
            let place = if i % 2 == 0 { Place::END } else { Place { mode: Mode::Mid, align: (i * 13 % 64) as u8, tail: Tail::Stale } };
            // an op whose buffer is a prefix of the longest later buffer shares that buffer's memory
            let mut pre: Option<&'static [u8]> = None;
            if t.stable {
                if longest.is_none() {
                    if let Some(big) = t.ops.iter().max_by_key(|o| o.buf.len()) {
                        let p = self.arena.stable(big.buf.len());
                        // SAFETY: p has room for big.buf.len() bytes
                        unsafe { std::ptr::copy_nonoverlapping(big.buf.as_ptr(), p, big.buf.len()) };
                        longest = Some((p, big.buf.clone()));
                    }
                }
                if let Some((p, big)) = &longest {
                    if big.starts_with(&op.buf) {
                        // SAFETY: prefix of the stable region
                        pre = Some(unsafe { std::slice::from_raw_parts(*p as *const u8, op.buf.len()) });
                    } else if !op.buf.is_empty() && op.buf.len() <= big.len() {
                        // a window of it: same memory, later start
                        if let Some(off) = big.windows(op.buf.len()).position(|w| w == &op.buf[..]) {
                            // SAFETY: [off, off+len) lies inside the stable region
                            pre = Some(unsafe { std::slice::from_raw_parts((*p as *const u8).add(off), op.buf.len()) });
                        }
                    }
                }
            }
            let o = self.checked_at(&mut sess, &spec, &op.buf, pre, place, &[], true, Scen::Reuse);
            h = mix(h ^ o.st.class() as u64);
            specs.push((spec, pre, place));
            last = Some(o);
        }
        self.stats.interleavings.insert(h);
        // ---- C16 on a kept value: the same history again on a second value, the probe issued
        // through another entry point with the capacity the first probe saw; status and
        // start-line fields (headers too on Complete) must agree
        if self.on(16) && n >= 2 {
            if let Some(a) = last.filter(|a| a.st != St::Panic) {
                let (pspec, _, _) = specs[n - 1];
                let alts: &[u8] = if pspec.cfg == 0 { &[0, 1, 2, 3] } else { &[1, 3] };
                let e = alts[((t.knob_seed >> 7) as usize) % alts.len()];
                if e != pspec.entry {
                    let mut s2 = Session::new();
                    let mut b: Option<Obs> = None;
                    for (i, op) in t.ops.iter().enumerate() {
                        let (mut sp, pre, place) = specs[i];
                        if i + 1 == n {
                            sp.entry = e;
                            sp.cap = a.eff_cap;
                            if e < 2 && s2.current_cap().map_or(sp.cap, |c| c) != a.eff_cap {
                                break;
                            }
                        }
                        let buf = match pre {
                            Some(b) => b,
                            None => self.arena.place(&op.buf, place, &[]),
                        };
                        let o = s2.call(self.arena, &sp, buf, true);
                        if o.st == St::Panic {
                            break;
                        }
                        if i + 1 == n {
                            b = Some(o);
                        }
                    }
                    if let Some(b) = b {
                        self.stats.evaluations[16] += 1;
                        let fb = |x: &Option<crate::sut::FieldObs>| x.as_ref().map(|f| f.bytes.clone());
                        let mut d: Option<String> = None;
                        if a.st != b.st {
                            d = Some(format!("status {:?} vs {:?}", a.st, b.st));
                        } else if a.st.is_complete() {
                            d = same_full(&a, &b);
                        } else if fb(&a.method) != fb(&b.method) || fb(&a.path) != fb(&b.path) || a.version != b.version || a.code != b.code || fb(&a.reason) != fb(&b.reason) {
                            d = Some(format!("start-line fields after {:?} differ (version {:?} vs {:?}, code {:?} vs {:?}, method/path/reason set: {}{}{} vs {}{}{})", a.st, a.version, b.version, a.code, b.code, a.method.is_some() as u8, a.path.is_some() as u8, a.reason.is_some() as u8, b.method.is_some() as u8, b.path.is_some() as u8, b.reason.is_some() as u8));
                        }
                        if let Some(d) = d {
                            let k = t.kind as usize;
                            self.push(16, "history-entry-point-agreement", format!("after the same {} earlier calls on the value, {} vs {}: {} | probe {}", n - 1, crate::sut::ENTRY_NAMES[k][pspec.entry as usize], crate::sut::ENTRY_NAMES[k][e as usize], d, brief(&t.ops[n - 1].buf)));
                        }
                    }
                }
            }
        }
    }

    pub fn run_single(&mut self) {
        // adversarial: one big call (plus the standard checks)
        let t = self.t;
        let c = &t.conns[0];
        let kind = t.kind;
        let spec = self.spec(kind, t.entry, if kind == Kind::Req || kind == Kind::Resp { t.cfg } else { 0 }, t.cap);
        let mut s = Session::new();
        let place = c.deliveries.first().map(|d| d.place).unwrap_or(Place::END);
        let _ = self.checked(&mut s, &spec, &c.wire, place, &[], false, Scen::Adversarial);
    }

    pub fn run(&mut self) {
        self.stats.runs += 1;
        match self.t.scen {
            Scen::Conn => self.run_conn(),
            Scen::Sweep => self.run_sweep(),
            Scen::Reuse => self.run_reuse(),
            Scen::Adversarial => self.run_single(),
            Scen::ByteSweep => self.run_bytesweep(),
        }
        for c in &self.t.conns {
            for f in &c.faults {
                *self.stats.faults_fired.entry(f.kind).or_insert(0) += 1;
            }
            for w in c.deliveries.windows(2) {
                if w[0].upto == w[1].upto {
                    *self.stats.faults_fired.entry("zero_read").or_insert(0) += 1;
                }
                if w[1].time_us - w[0].time_us >= 1_000_000 {
                    *self.stats.faults_fired.entry("stall").or_insert(0) += 1;
                }
            }
            for d in &c.deliveries {
                let k = match (d.place.mode, d.place.tail) {
                    (Mode::EndGuard, _) => "guard_end",
                    (Mode::StartGuard, _) => "guard_start",
                    (Mode::Mid, Tail::Bait) => "bait_tail",
                    (Mode::Mid, Tail::Future) => "future_tail",
                    (Mode::Mid, _) => "stale_tail",
                };
                *self.stats.faults_fired.entry(k).or_insert(0) += 1;
            }
            if c.deliveries.len() > 1 {
                *self.stats.faults_fired.entry("split").or_insert(0) += (c.deliveries.len() - 1) as u64;
                *self.stats.faults_fired.entry("relocate").or_insert(0) += (c.deliveries.len() - 1) as u64;
            }
        }
        if self.t.backend != 0 {
            *self.stats.faults_fired.entry("backend_forced").or_insert(0) += 1;
        }
        match self.t.alloc_mode {
            2 => *self.stats.faults_fired.entry("alloc_failure_injected").or_insert(0) += 1,
            5 => *self.stats.faults_fired.entry("env_all_set_cold_cache").or_insert(0) += 1,
            _ => {}
        }
    }

    /// byte-sweep: substitute(pos, byte) at every position x all 256 values of a base message.
    pub fn run_bytesweep(&mut self) {
        let t = self.t;
        let base = &t.conns[0].wire;
        let kind = t.kind;
        let spec = self.spec(kind, t.entry, if kind == Kind::Req || kind == Kind::Resp { t.cfg } else { 0 }, t.cap);
        let mut buf = base.clone();
        for pos in 0..base.len() {
            for b in 0..=255u8 {
                if b == base[pos] && pos > 0 {
                    continue;
                }
                buf[pos] = b;
                let m = self.arena.mark();
                let mut s = Session::new();
                let _ = self.checked(&mut s, &spec, &buf, Place::END, &[], false, Scen::ByteSweep);
                drop(s);
                self.arena.release(m);
                if self.viol.len() > 20 {
                    return;
                }
            }
            buf[pos] = base[pos];
        }
        *self.stats.faults_fired.entry("subst_swept").or_insert(0) += base.len() as u64 * 255;
    }
}

fn outcome_name(s: &St) -> String {
    match s {
        St::Complete(_) => "Complete".into(),
        St::Partial => "Partial".into(),
        St::Err(e) => format!("Err({:?})", e),
        St::Panic => "PANIC".into(),
    }
}

pub fn brief(b: &[u8]) -> String {
    if b.len() <= 240 {
        format!("[{}] \"{}\"", b.len(), crate::json::show(b))
    } else {
        format!("[{}] \"{}...{}\"", b.len(), crate::json::show(&b[..120]), crate::json::show(&b[b.len() - 80..]))
    }
}
