//! The allocator seam: a counting / failing `#[global_allocator]` armed around each parse call.

use std::alloc::{GlobalAlloc, Layout, System};
use std::sync::atomic::{AtomicU64, AtomicU8, Ordering};

pub struct Counting;

/// 0 = disarmed, 1 = count, 2 = count and fail (return null).
static ARMED: AtomicU8 = AtomicU8::new(0);
static COUNT: AtomicU64 = AtomicU64::new(0);
static LAST_SIZE: AtomicU64 = AtomicU64::new(0);

// SAFETY: defers to System; when armed in failing mode returns null, which GlobalAlloc permits.
unsafe impl GlobalAlloc for Counting {
    unsafe fn alloc(&self, l: Layout) -> *mut u8 {
        let a = ARMED.load(Ordering::Relaxed);
        if a != 0 {
            COUNT.fetch_add(1, Ordering::Relaxed);
            LAST_SIZE.store(l.size() as u64, Ordering::Relaxed);
            if a == 2 {
                // stay disarmed while the failure is handled, so the abort path can allocate
                ARMED.store(0, Ordering::Relaxed);
                return std::ptr::null_mut();
            }
        }
        System.alloc(l)
    }
    unsafe fn dealloc(&self, p: *mut u8, l: Layout) {
        System.dealloc(p, l)
    }
    unsafe fn alloc_zeroed(&self, l: Layout) -> *mut u8 {
        let a = ARMED.load(Ordering::Relaxed);
        if a != 0 {
            COUNT.fetch_add(1, Ordering::Relaxed);
            LAST_SIZE.store(l.size() as u64, Ordering::Relaxed);
            if a == 2 {
                ARMED.store(0, Ordering::Relaxed);
                return std::ptr::null_mut();
            }
        }
        System.alloc_zeroed(l)
    }
    unsafe fn realloc(&self, p: *mut u8, l: Layout, n: usize) -> *mut u8 {
        let a = ARMED.load(Ordering::Relaxed);
        if a != 0 {
            COUNT.fetch_add(1, Ordering::Relaxed);
            LAST_SIZE.store(n as u64, Ordering::Relaxed);
            if a == 2 {
                ARMED.store(0, Ordering::Relaxed);
                return std::ptr::null_mut();
            }
        }
        System.realloc(p, l, n)
    }
}

#[inline]
pub fn arm(mode: u8) {
    COUNT.store(0, Ordering::Relaxed);
    ARMED.store(mode, Ordering::Relaxed);
}

/// Disarm and return (number of allocator calls while armed, size of the last one).
#[inline]
pub fn disarm() -> (u64, u64) {
    ARMED.store(0, Ordering::Relaxed);
    (COUNT.load(Ordering::Relaxed), LAST_SIZE.load(Ordering::Relaxed))
}
