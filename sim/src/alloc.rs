//! The allocator seam: a counting / failing `#[global_allocator]` armed around each parse call.

use std::alloc::{GlobalAlloc, Layout, System};
use std::sync::atomic::{AtomicU64, AtomicU8, Ordering};

pub struct Counting;

/// 0 = disarmed, 1 = count, 2 = count and fail (return null).
static ARMED: AtomicU8 = AtomicU8::new(0);
static COUNT: AtomicU64 = AtomicU64::new(0);
static LAST_SIZE: AtomicU64 = AtomicU64::new(0);

// SAFETY: defers to System; when armed in failing mode returns null, which GlobalAlloc permits.
unsafe impl GlobalAlloc for Counting {
    unsafe fn alloc(&self, l: Layout) -> *mut u8 {
        let a = ARMED.load(Ordering::Relaxed);
        if a != 0 {
            COUNT.fetch_add(1, Ordering::Relaxed);
            LAST_SIZE.store(l.size() as u64, Ordering::Relaxed);
            if a == 2 {
                // stay disarmed while the failure is handled, so the abort path can allocate
                ARMED.store(0, Ordering::Relaxed);
                return std::ptr::null_mut();
            }
        }
        System.alloc(l)
    }
    unsafe fn dealloc(&self, p: *mut u8, l: Layout) {
        System.dealloc(p, l)
    }
    unsafe fn alloc_zeroed(&self, l: Layout) -> *mut u8 {
        let a = ARMED.load(Ordering::Relaxed);
        if a != 0 {
            COUNT.fetch_add(1, Ordering::Relaxed);
            LAST_SIZE.store(l.size() as u64, Ordering::Relaxed);
            if a == 2 {
                ARMED.store(0, Ordering::Relaxed);
                return std::ptr::null_mut();
            }
        }
        System.alloc_zeroed(l)
    }
    unsafe fn realloc(&self, p: *mut u8, l: Layout, n: usize) -> *mut u8 {
        let a = ARMED.load(Ordering::Relaxed);
        if a != 0 {
            COUNT.fetch_add(1, Ordering::Relaxed);
            LAST_SIZE.store(n as u64, Ordering::Relaxed);
            if a == 2 {
                ARMED.store(0, Ordering::Relaxed);
                return std::ptr::null_mut();
            }
        }
        System.realloc(p, l, n)
    }
}

#[inline]
pub fn arm(mode: u8) {
    COUNT.store(0, Ordering::Relaxed);
    ARMED.store(mode, Ordering::Relaxed);
}

/// Disarm and return (number of allocator calls while armed, size of the last one).
#[inline]
pub fn disarm() -> (u64, u64) {
    ARMED.store(0, Ordering::Relaxed);
    (COUNT.load(Ordering::Relaxed), LAST_SIZE.load(Ordering::Relaxed))
}

// ---------------------------------------------------------------------------------------------
// The environment seam: this executable defines `getenv`, so every lookup made by std (and by
// the crate under test through std::env) resolves here. Unarmed it behaves like libc's. Armed
// (around a parse call, in a share of the runs) EVERY variable is reported as set to "1" and the
// lookup is counted: a parse entry point that consults the process environment then takes the
// path it would take on a machine where that variable happens to be set.

#[cfg(not(miri))]
use std::os::raw::c_char;
static ENV_ARMED: AtomicU8 = AtomicU8::new(0);
static ENV_LOOKUPS: AtomicU64 = AtomicU64::new(0);
#[cfg(not(miri))]
static ONE: [u8; 2] = *b"1\0";

#[cfg(not(miri))]
extern "C" {
    static environ: *const *const c_char;
}

/// # Safety
/// `name` must be a NUL-terminated string (libc contract).
#[cfg(not(miri))]
#[no_mangle]
pub unsafe extern "C" fn getenv(name: *const c_char) -> *mut c_char {
    if ENV_ARMED.load(Ordering::Relaxed) != 0 {
        ENV_LOOKUPS.fetch_add(1, Ordering::Relaxed);
        return ONE.as_ptr() as *mut c_char;
    }
    if name.is_null() || environ.is_null() {
        return std::ptr::null_mut();
    }
    let mut n = 0usize;
    while *name.add(n) != 0 {
        n += 1;
    }
    let mut e = environ;
    while !(*e).is_null() {
        let entry = *e;
        let mut i = 0usize;
        while i < n && *entry.add(i) == *name.add(i) && *entry.add(i) != 0 {
            i += 1;
        }
        if i == n && *entry.add(n) == b'=' as c_char {
            return entry.add(n + 1) as *mut c_char;
        }
        e = e.add(1);
    }
    std::ptr::null_mut()
}

pub fn arm_env(on: bool) {
    ENV_LOOKUPS.store(0, Ordering::Relaxed);
    ENV_ARMED.store(on as u8, Ordering::Relaxed);
}
pub fn disarm_env() -> u64 {
    ENV_ARMED.store(0, Ordering::Relaxed);
    ENV_LOOKUPS.load(Ordering::Relaxed)
}
