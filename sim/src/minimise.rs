//! Trace minimisation: shrink while the same violation class (property + oracle) persists.

use crate::arena::{Arena, Place};
use crate::exec::Stats;
use crate::trace::*;
use std::process::{Command, Stdio};

struct Ctx<'a> {
    arena: Arena,
    mask: u32,
    prop: usize,
    oracle: &'a str,
    budget: usize,
    /// where to checkpoint the best trace so far (the minimiser runs in a child process that a
    /// broken parser may kill)
    checkpoint: Option<String>,
}

impl<'a> Ctx<'a> {
    fn fails(&mut self, t: &Trace) -> bool {
        if self.budget == 0 {
            return false;
        }
        self.budget -= 1;
        let mut stats = Stats::default();
        let (v, _) = crate::execute(&mut self.arena, &mut stats, t, self.mask, false);
        let hit = v.iter().any(|x| x.prop == self.prop && x.oracle == self.oracle);
        if hit {
            if let Some(p) = &self.checkpoint {
                let _ = std::fs::write(p, t.to_json().compact());
            }
        }
        hit
    }
}

fn total_len(t: &Trace) -> usize {
    t.conns.iter().map(|c| c.wire.len()).sum::<usize>() + t.ops.iter().map(|o| o.buf.len()).sum::<usize>()
}

fn void_truth(c: &mut Conn) {
    c.truth.clear();
}

fn one_shot(c: &mut Conn) {
    let n = c.wire.len();
    c.deliveries = vec![Delivery { upto: n, place: Place::END, time_us: 0 }];
    c.alt.clear();
}

fn fix_order(t: &mut Trace) {
    let mut ev: Vec<(u64, usize, usize)> = Vec::new();
    for (ci, c) in t.conns.iter().enumerate() {
        for (di, d) in c.deliveries.iter().enumerate() {
            ev.push((d.time_us, ci, di));
        }
    }
    ev.sort();
    t.order = ev.iter().map(|e| e.1 as u8).collect();
}

fn clamp_deliveries(c: &mut Conn) {
    let n = c.wire.len();
    for d in c.deliveries.iter_mut() {
        d.upto = d.upto.min(n);
    }
    for a in c.alt.iter_mut() {
        *a = (*a).min(n);
    }
    if let Some(l) = c.deliveries.last_mut() {
        l.upto = n;
    }
    if let Some(l) = c.alt.last_mut() {
        *l = n;
    }
}

/// Generic candidate transformations, applied greedily to a fixpoint within the budget.
fn shrink(ctx: &mut Ctx, mut t: Trace, oracle_needs_truth: bool) -> Trace {
    loop {
        let before = (total_len(&t), t.conns.len(), t.ops.len(), t.cfg, t.conns.iter().map(|c| c.deliveries.len()).sum::<usize>());
        // drop connections
        if t.conns.len() > 1 {
            for i in (0..t.conns.len()).rev() {
                if t.conns.len() == 1 {
                    break;
                }
                let mut c = t.clone();
                c.conns.remove(i);
                if c.reuse == 3 && c.conns.len() < 2 {
                    c.reuse = 2;
                }
                fix_order(&mut c);
                if ctx.fails(&c) {
                    t = c;
                }
            }
        }
        // drop history ops (never the probe)
        if t.ops.len() > 1 {
            for i in (0..t.ops.len() - 1).rev() {
                let mut c = t.clone();
                c.ops.remove(i);
                if ctx.fails(&c) {
                    t = c;
                }
            }
        }
        // knobs towards defaults
        for f in 0..8 {
            let mut c = t.clone();
            match f {
                0 => c.reuse = 0,
                1 => c.backend = 0,
                2 => {
                    c.entry = if c.cfg == 0 { 0 } else { 1 };
                }
                3 => c.cap = 64,
                4 => {
                    for conn in c.conns.iter_mut() {
                        one_shot(conn);
                    }
                    fix_order(&mut c);
                }
                5 => {
                    for conn in c.conns.iter_mut() {
                        for d in conn.deliveries.iter_mut() {
                            d.place = Place::END;
                        }
                    }
                }
                6 => c.arr_guard = true,
                _ => {
                    for conn in c.conns.iter_mut() {
                        conn.alt.clear();
                    }
                }
            }
            if ctx.fails(&c) {
                t = c;
            }
        }
        for bit in 0..7 {
            if t.cfg & (1 << bit) != 0 {
                let mut c = t.clone();
                c.cfg &= !(1 << bit);
                if ctx.fails(&c) {
                    t = c;
                }
            }
            for oi in 0..t.ops.len() {
                if t.ops[oi].cfg & (1 << bit) != 0 {
                    let mut c = t.clone();
                    c.ops[oi].cfg &= !(1 << bit);
                    if c.ops[oi].cfg == 0 || true {
                        if ctx.fails(&c) {
                            t = c;
                        }
                    }
                }
            }
        }
        // merge deliveries
        for ci in 0..t.conns.len() {
            let mut di = 0;
            while t.conns[ci].deliveries.len() > 1 && di + 1 < t.conns[ci].deliveries.len() {
                let mut c = t.clone();
                c.conns[ci].deliveries.remove(di);
                fix_order(&mut c);
                if ctx.fails(&c) {
                    t = c;
                } else {
                    di += 1;
                }
            }
        }
        // bytes (voids sender truth, so only when the oracle does not depend on it)
        if !oracle_needs_truth {
            for ci in 0..t.conns.len() {
                // truncate the tail
                let mut step = t.conns[ci].wire.len() / 2;
                while step >= 1 {
                    let n = t.conns[ci].wire.len();
                    if n > step {
                        let mut c = t.clone();
                        c.conns[ci].wire.truncate(n - step);
                        void_truth(&mut c.conns[ci]);
                        clamp_deliveries(&mut c.conns[ci]);
                        if ctx.fails(&c) {
                            t = c;
                            continue;
                        }
                    }
                    step /= 2;
                }
                // ddmin-style chunk deletion
                let mut chunk = (t.conns[ci].wire.len() / 4).max(1);
                loop {
                    let mut pos = 0;
                    while pos < t.conns[ci].wire.len() {
                        let end = (pos + chunk).min(t.conns[ci].wire.len());
                        let mut c = t.clone();
                        c.conns[ci].wire.drain(pos..end);
                        void_truth(&mut c.conns[ci]);
                        clamp_deliveries(&mut c.conns[ci]);
                        if ctx.fails(&c) {
                            t = c;
                        } else {
                            pos = end;
                        }
                        if ctx.budget == 0 {
                            break;
                        }
                    }
                    if chunk == 1 || ctx.budget == 0 {
                        break;
                    }
                    chunk = (chunk / 2).max(1);
                }
                // simplify bytes
                for pos in 0..t.conns[ci].wire.len() {
                    let b = t.conns[ci].wire[pos];
                    if b.is_ascii_alphanumeric() && b != b'a' {
                        let mut c = t.clone();
                        c.conns[ci].wire[pos] = b'a';
                        void_truth(&mut c.conns[ci]);
                        if ctx.fails(&c) {
                            t = c;
                        }
                    }
                    if ctx.budget == 0 {
                        break;
                    }
                }
            }
            for oi in 0..t.ops.len() {
                let mut chunk = (t.ops[oi].buf.len() / 4).max(1);
                loop {
                    let mut pos = 0;
                    while pos < t.ops[oi].buf.len() {
                        let end = (pos + chunk).min(t.ops[oi].buf.len());
                        let mut c = t.clone();
                        c.ops[oi].buf.drain(pos..end);
                        if ctx.fails(&c) {
                            t = c;
                        } else {
                            pos = end;
                        }
                        if ctx.budget == 0 {
                            break;
                        }
                    }
                    if chunk == 1 || ctx.budget == 0 {
                        break;
                    }
                    chunk = (chunk / 2).max(1);
                }
            }
        }
        let after = (total_len(&t), t.conns.len(), t.ops.len(), t.cfg, t.conns.iter().map(|c| c.deliveries.len()).sum::<usize>());
        if after == before || ctx.budget == 0 {
            return t;
        }
    }
}

pub fn minimise(t: &Trace, mask: u32, prop: usize, oracle: &str, budget: usize, checkpoint: Option<String>) -> Trace {
    let mut ctx = Ctx { arena: Arena::new(), mask, prop, oracle, budget, checkpoint };
    if !ctx.fails(t) {
        // not reproducible under the narrowed mask (should not happen): keep the original
        return t.clone();
    }
    let needs_truth = oracle == "sender-truth" || oracle == "conservation";
    shrink(&mut ctx, t.clone(), needs_truth)
}

/// For traces that kill the process: every candidate runs in a child process.
pub fn minimise_crash(t: &Trace, mask: u32, exe: &std::path::Path, vd: &str, budget: usize) -> Trace {
    let tmp = format!("{}/work/crash-{}.json", vd, std::process::id());
    let _ = std::fs::create_dir_all(format!("{}/work", vd));
    let mut left = budget;
    let mut crashes = |c: &Trace| -> bool {
        if left == 0 {
            return false;
        }
        left -= 1;
        let j = crate::json::J::obj().set("mask", crate::json::J::u(mask as u64)).set("trace", c.to_json());
        if std::fs::write(&tmp, j.compact()).is_err() {
            return false;
        }
        let st = Command::new(exe).args(["replay", &tmp, "--quiet"]).env("VERIF_WATCHDOG", "4").stdout(Stdio::null()).stderr(Stdio::null()).status();
        match st {
            Ok(s) => s.code() == Some(101) || s.code().is_none(),
            Err(_) => false,
        }
    };
    let mut cur = t.clone();
    if !crashes(&cur) {
        let _ = std::fs::remove_file(&tmp);
        return cur;
    }
    // drop connections, then truncate / delete bytes
    for i in (0..cur.conns.len()).rev() {
        if cur.conns.len() == 1 {
            break;
        }
        let mut c = cur.clone();
        c.conns.remove(i);
        fix_order(&mut c);
        if crashes(&c) {
            cur = c;
        }
    }
    for ci in 0..cur.conns.len() {
        let mut chunk = (cur.conns[ci].wire.len() / 2).max(1);
        loop {
            let mut pos = 0;
            while pos < cur.conns[ci].wire.len() {
                let end = (pos + chunk).min(cur.conns[ci].wire.len());
                let mut c = cur.clone();
                c.conns[ci].wire.drain(pos..end);
                void_truth(&mut c.conns[ci]);
                clamp_deliveries(&mut c.conns[ci]);
                if crashes(&c) {
                    cur = c;
                } else {
                    pos = end;
                }
            }
            if chunk == 1 {
                break;
            }
            chunk = (chunk / 2).max(1);
        }
    }
    let _ = std::fs::remove_file(&tmp);
    cur
}

/// Run the minimiser in a child process; if the child dies, the best checkpoint so far is used.
pub fn minimise_in_child(t: &Trace, mask: u32, prop: usize, oracle: &str, budget: usize, exe: &std::path::Path, vd: &str) -> Trace {
    let _ = std::fs::create_dir_all(format!("{}/work", vd));
    let inp = format!("{}/work/min-in-{}.json", vd, std::process::id());
    let outp = format!("{}/work/min-out-{}.json", vd, std::process::id());
    let _ = std::fs::remove_file(&outp);
    if std::fs::write(&inp, t.to_json().compact()).is_err() {
        return t.clone();
    }
    let _ = Command::new(exe)
        .args(["minimise", &inp, &outp, &prop.to_string(), oracle, &mask.to_string(), &budget.to_string()])
        .stdout(Stdio::null())
        .stderr(Stdio::null())
        .status();
    let res = std::fs::read_to_string(&outp).ok().and_then(|s| crate::json::J::parse(&s).ok()).and_then(|j| Trace::from_json(&j).ok());
    let _ = std::fs::remove_file(&inp);
    let _ = std::fs::remove_file(&outp);
    res.unwrap_or_else(|| t.clone())
}
