//! Which runs a check consists of: run index -> (scenario, generator options), the oracle mask,
//! and the run counts per tier.

use crate::check::pbit;
use crate::gen::{self, GenOpts};
use crate::sut::Kind;
use crate::trace::{Scen, Trace};

pub struct Plan {
    pub id: usize,
    pub mask: u32,
    /// scenario pattern, cycled by run index
    pub pattern: &'static [Scen],
    pub opts: GenOpts,
    pub quick_runs: u64,
    pub thorough_runs: u64,
    /// max input length for the adversarial scenario (quick, thorough)
    pub adv_len: (usize, usize),
    pub level: &'static str,
    /// every n-th run is a threshold-probing run (one long clean element at a scanner threshold,
    /// a boundary byte near the threshold): a prefix sweep, or a reuse history where the
    /// pattern says Reuse
    pub thresh_every: u64,
}

const RR: &[Kind] = &[Kind::Req, Kind::Resp];
const REQ: &[Kind] = &[Kind::Req];
const RESP: &[Kind] = &[Kind::Resp];
const ALL: &[Kind] = &[Kind::Req, Kind::Resp, Kind::Req, Kind::Resp, Kind::Hdrs, Kind::Chunk];
const MSG3: &[Kind] = &[Kind::Req, Kind::Resp, Kind::Hdrs];
const CHUNKY: &[Kind] = &[Kind::Chunk, Kind::Chunk, Kind::Req, Kind::Resp];

use Scen::*;

pub fn plan(id: usize) -> Option<Plan> {
    let d = GenOpts::default();
    let p = |mask_ids: &[usize], pattern: &'static [Scen], opts: GenOpts, q: u64, t: u64, level: &'static str| Plan {
        id,
        mask: mask_ids.iter().fold(0, |m, &i| m | pbit(i)),
        pattern,
        opts,
        quick_runs: q,
        thorough_runs: t,
        adv_len: (256 * 1024, 1024 * 1024),
        level,
        thresh_every: match id {
            11 => 25,
            13 | 18 => 40,
            _ => 250,
        },
    };
    Some(match id {
        1 => p(&[1], &[Conn, Sweep, Conn, Sweep, Adversarial, Reuse], GenOpts { kinds: ALL, ..d }, 650_000, 12_000_000, "exploration"),
        2 => p(&[2], &[Sweep, Sweep, Conn, Sweep, Conn], GenOpts { kinds: ALL, ..d }, 500_000, 10_000_000, "fault_enumeration"),
        3 => p(&[3], &[Conn, Conn, Sweep], GenOpts { kinds: ALL, ..d }, 750_000, 12_000_000, "exploration"),
        4 => p(&[4], &[Conn, Sweep, Reuse], GenOpts { kinds: MSG3, ..d }, 750_000, 12_000_000, "exploration"),
        5 => p(&[5], &[Conn, Sweep, Conn, Reuse], GenOpts { kinds: MSG3, ..d }, 750_000, 12_000_000, "exploration"),
        6 => p(&[6], &[Conn, Sweep, Conn, Sweep, Reuse], GenOpts { kinds: REQ, ..d }, 750_000, 12_000_000, "exploration"),
        7 => p(&[7], &[Conn, Sweep, Conn, Sweep, Reuse], GenOpts { kinds: RESP, ..d }, 750_000, 12_000_000, "exploration"),
        8 => p(&[8], &[Conn, Sweep, Conn, Sweep, Adversarial], GenOpts { kinds: MSG3, cfg_mask: 4 | 8, ..d }, 750_000, 12_000_000, "exploration"),
        9 => p(&[9], &[Conn, Sweep, Sweep], GenOpts { kinds: CHUNKY, chunk_heavy: true, ..d }, 750_000, 12_000_000, "exploration"),
        10 => p(&[10], &[Conn, Sweep, Conn, Sweep, Adversarial, Reuse], GenOpts { kinds: MSG3, ..d }, 750_000, 12_000_000, "exploration"),
        11 => p(&[11], &[Sweep, Sweep, Conn], GenOpts { kinds: ALL, ..d }, 150_000, 3_000_000, "exploration"),
        13 => p(&[13], &[Conn, Sweep, Adversarial], GenOpts { kinds: ALL, ..d }, 400_000, 8_000_000, "exploration"),
        14 => p(&[14], &[Conn, Sweep, Conn, Sweep, Adversarial], GenOpts { kinds: RR, ..d }, 750_000, 12_000_000, "exploration"),
        15 => p(&[15], &[Conn, Sweep], GenOpts { kinds: RR, ..d }, 250_000, 5_000_000, "exploration"),
        16 => p(&[16], &[Conn, Sweep, Reuse], GenOpts { kinds: RR, ..d }, 375_000, 8_000_000, "exploration"),
        17 => p(&[17], &[Conn, Sweep, Reuse, Sweep, Adversarial], GenOpts { kinds: MSG3, ..d }, 300_000, 6_000_000, "fault_enumeration"),
        18 => p(&[18], &[Reuse, Reuse, Conn], GenOpts { kinds: RR, ..d }, 750_000, 12_000_000, "exploration"),
        19 => p(&[19], &[Conn, Sweep, Adversarial, Reuse], GenOpts { kinds: ALL, ..d }, 650_000, 12_000_000, "exploration"),
        20 => p(&[20], &[Adversarial, Conn, Adversarial, Sweep], GenOpts { kinds: ALL, ..d }, 150_000, 1_500_000, "exploration"),
        // 0 = everything at once (self-tests, determinism, digests)
        0 => p(&[1, 2, 3, 4, 5, 6, 7, 8, 9, 10, 11, 13, 14, 15, 16, 17, 18, 19, 20], &[Conn, Sweep, Reuse, Conn, Sweep, Adversarial], GenOpts { kinds: ALL, ..d }, 100_000, 400_000, "exploration"),
        _ => return None,
    })
}

impl Plan {
    pub fn generate(&self, run_seed: u64, index: u64, thorough: bool) -> Trace {
        let mut scen = self.pattern[(index % self.pattern.len() as u64) as usize];
        // thorough tier: every 1000th run of the grammar/hygiene checks is a byte-sweep (the
        // corruption fault substitute(pos, byte) at every position x all 256 values)
        if thorough && index % 1000 == 999 && matches!(self.id, 5 | 6 | 7 | 8 | 10 | 14 | 1 | 11) {
            scen = ByteSweep;
        }
        // threshold probing: a fixed share of every plan (the slot keeps the scenario kind of the
        // pattern where it is Reuse, and is a prefix sweep otherwise)
        let thresh = index % self.thresh_every == self.thresh_every - 1 && scen != ByteSweep && scen != Adversarial;
        let mut t = match scen {
            Reuse if thresh => gen::gen_thresh_reuse(run_seed, &self.opts),
            Conn | Sweep if thresh => gen::gen_thresh_sweep(run_seed, &self.opts),
            Conn => gen::gen_conn(run_seed, &self.opts),
            Sweep => gen::gen_sweep(run_seed, &self.opts),
            Reuse => gen::gen_reuse(run_seed, &self.opts),
            Adversarial => {
                // most adversarial runs are small; every 16th goes to the size limit of the tier
                let max = if index % 16 == 4 { if thorough { self.adv_len.1 } else { self.adv_len.0 } } else { 4096 };
                gen::gen_adversarial(run_seed, max)
            }
            ByteSweep => {
                let o = GenOpts { kinds: self.opts.kinds, force_cfg: self.opts.force_cfg, cfg_mask: self.opts.cfg_mask, faults: false, max_conns: 1, chunk_heavy: false };
                let mut t = gen::gen_sweep(run_seed, &o);
                t.scen = ByteSweep;
                t.conns[0].wire.truncate(220);
                t.conns[0].truth.clear();
                t
            }
        };
        if self.id == 19 {
            // a share of the runs inject allocation failure instead of counting
            if index % 5 == 0 {
                t.alloc_mode = 2;
            }
            // and a share run with the environment fault: cold dispatch cache + every getenv hit
            if index % 7 == 3 {
                t.alloc_mode = 1 | 4;
            }
        }
        if self.id == 14 && t.cfg & (1 | 2 | 16 | 32 | 64) == 0 {
            // C14 is about the header options: make sure at least one is on
            t.cfg |= [1u8, 2, 16, 32, 64, 2 | 32, 1 | 2, 16 | 64][(index % 8) as usize];
            if t.entry == 0 {
                t.entry = 1;
            }
            if t.entry == 2 {
                t.entry = 3;
            }
            for o in t.ops.iter_mut() {
                let _ = o;
            }
        }
        t
    }
}
