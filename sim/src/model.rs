//! Reference model: a byte-at-a-time, index-based, safe-Rust reading of the property statements
//! (DESIGN.md §4.2). No raw pointers, no tables or code shared with httparse, no look-ahead beyond
//! what a statement itself implies. Silent where the statements are silent (fields on Err, slots
//! written before Partial/Err, which start-line fields are already Some on Partial).

#[derive(Clone, Copy, Debug, PartialEq, Eq, PartialOrd, Ord, Hash)]
pub enum E {
    HeaderName,
    HeaderValue,
    NewLine,
    Status,
    Token,
    TooManyHeaders,
    Version,
    Chunk,
}

#[derive(Clone, Copy, Debug, PartialEq, Eq, Hash)]
pub enum St {
    Complete(usize),
    Partial,
    Err(E),
    /// Only ever produced by the real implementation (caught unwind).
    Panic,
}

impl St {
    pub fn class(&self) -> u8 {
        match self {
            St::Complete(_) => 0,
            St::Partial => 1,
            St::Err(e) => 2 + *e as u8,
            St::Panic => 15,
        }
    }
    pub fn is_complete(&self) -> bool {
        matches!(self, St::Complete(_))
    }
}

/// The seven public options as bits: A F Mreq Mresp S Iresp Ireq = 1 2 4 8 16 32 64.
#[derive(Clone, Copy, Debug, Default, PartialEq, Eq)]
pub struct Cfg {
    pub a: bool,
    pub f: bool,
    pub mreq: bool,
    pub mresp: bool,
    pub s: bool,
    pub iresp: bool,
    pub ireq: bool,
}
impl Cfg {
    pub fn from_bits(b: u8) -> Cfg {
        Cfg { a: b & 1 != 0, f: b & 2 != 0, mreq: b & 4 != 0, mresp: b & 8 != 0, s: b & 16 != 0, iresp: b & 32 != 0, ireq: b & 64 != 0 }
    }
}
pub const REQ_RELEVANT: u8 = 4 | 16 | 64;
pub const RESP_RELEVANT: u8 = 1 | 2 | 8 | 16 | 32;

#[derive(Clone, Copy, Debug, Default)]
pub struct HCfg {
    pub a: bool,
    pub f: bool,
    pub s: bool,
    pub i: bool,
}

pub type Span = (usize, usize);

#[derive(Clone, Debug, Default, PartialEq, Eq)]
pub struct Out {
    pub method: Option<Span>,
    pub path: Option<Span>,
    pub version: Option<u8>,
    pub code: Option<u16>,
    /// (start, end, reported-as-empty): reported-as-empty when absent or containing obs-text.
    pub reason: Option<(usize, usize, bool)>,
    pub headers: Vec<(Span, Span)>,
    /// Grammar position at which the model stopped (for reach probes / signatures / C11 exception).
    pub end_state: u8,
    /// Number of header lines dropped by ignore-invalid.
    pub ignored: usize,
    /// Offset where the header block starts (just past the start line), if reached.
    pub hdr_start: Option<usize>,
}

pub mod es {
    pub const LEADING: u8 = 0;
    pub const METHOD: u8 = 1;
    pub const SP1: u8 = 2;
    pub const TARGET: u8 = 3;
    pub const SP2: u8 = 4;
    pub const VERSION: u8 = 5;
    pub const SL_EOL: u8 = 6;
    pub const RVERSION_SP: u8 = 7;
    pub const CODE: u8 = 8;
    pub const AFTER_CODE: u8 = 9;
    pub const REASON: u8 = 10;
    pub const LINE_START: u8 = 11;
    pub const LEAD_WS: u8 = 12;
    pub const NAME: u8 = 13;
    pub const WS_BEFORE_COLON: u8 = 14;
    pub const WS_AFTER_COLON: u8 = 15;
    pub const VALUE: u8 = 16;
    pub const VALUE_CR: u8 = 17;
    pub const FOLD_PENDING: u8 = 18;
    pub const IGNORED: u8 = 19;
    pub const IGNORED_CR: u8 = 20;
    pub const FINAL_CR: u8 = 21;
    pub const CH_DIGITS: u8 = 22;
    pub const CH_WS: u8 = 23;
    pub const CH_EXT: u8 = 24;
    pub const CH_CR: u8 = 25;
    pub const DONE: u8 = 26;
    pub const COUNT: u8 = 27;
    pub fn name(s: u8) -> &'static str {
        [
            "leading-empty-lines", "method", "sp-after-method", "target", "sp-after-target", "version", "start-line-eol", "resp-version-sp", "code",
            "after-code", "reason", "line-start", "leading-ws", "name", "ws-before-colon", "ws-after-colon", "value", "value-cr", "fold-pending",
            "ignored-line", "ignored-cr", "final-cr", "chunk-digits", "chunk-ws", "chunk-ext", "chunk-cr", "done",
        ][s as usize]
    }
}

pub fn tchar(b: u8) -> bool {
    matches!(b, b'A'..=b'Z' | b'a'..=b'z' | b'0'..=b'9' | b'!' | b'#' | b'$' | b'%' | b'&' | b'\'' | b'*' | b'+' | b'-' | b'.' | b'^' | b'_' | b'`' | b'|' | b'~')
}
pub fn urichar(b: u8) -> bool {
    (0x21..=0x7e).contains(&b) || b >= 0x80
}
pub fn valchar(b: u8) -> bool {
    b == 9 || (0x20..=0x7e).contains(&b) || b >= 0x80
}
pub fn reasonchar(b: u8) -> bool {
    b == 9 || b == b' ' || (0x21..=0x7e).contains(&b) || b >= 0x80
}
pub fn ws(b: u8) -> bool {
    b == b' ' || b == b'\t'
}

macro_rules! at {
    ($buf:expr, $p:expr) => {
        match $buf.get($p) {
            Some(&b) => b,
            None => return St::Partial,
        }
    };
}

fn skip_empty_lines(buf: &[u8], p: &mut usize) -> Option<St> {
    loop {
        match buf.get(*p) {
            None => return Some(St::Partial),
            Some(b'\r') => match buf.get(*p + 1) {
                None => return Some(St::Partial),
                Some(b'\n') => *p += 2,
                Some(_) => return Some(St::Err(E::NewLine)),
            },
            Some(b'\n') => *p += 1,
            Some(_) => return None,
        }
    }
}

fn skip_sp(buf: &[u8], p: &mut usize) -> Option<St> {
    loop {
        match buf.get(*p) {
            None => return Some(St::Partial),
            Some(b' ') => *p += 1,
            Some(_) => return None,
        }
    }
}

fn version(buf: &[u8], p: &mut usize) -> Result<u8, St> {
    let lit = b"HTTP/1.";
    for (i, &c) in lit.iter().enumerate() {
        match buf.get(*p + i) {
            None => return Err(St::Partial),
            Some(&b) if b == c => {}
            Some(_) => return Err(St::Err(E::Version)),
        }
    }
    let v = match buf.get(*p + 7) {
        None => return Err(St::Partial),
        Some(b'0') => 0,
        Some(b'1') => 1,
        Some(_) => return Err(St::Err(E::Version)),
    };
    *p += 8;
    Ok(v)
}

/// Header block starting at `start`. `cap` = number of headers the caller's array can hold.
pub fn headers(buf: &[u8], start: usize, c: HCfg, cap: usize, out: &mut Out) -> St {
    let mut p = start;
    out.hdr_start = Some(start);
    'line: loop {
        out.end_state = es::LINE_START;
        let b = at!(buf, p);
        if b == b'\r' {
            out.end_state = es::FINAL_CR;
            return match buf.get(p + 1) {
                None => St::Partial,
                Some(b'\n') => {
                    out.end_state = es::DONE;
                    St::Complete(p + 2)
                }
                Some(_) => St::Err(E::NewLine),
            };
        }
        if b == b'\n' {
            out.end_state = es::DONE;
            return St::Complete(p + 1);
        }
        // (kind, index of offending byte)
        let mut invalid: Option<(E, usize)> = None;
        let mut name = (0, 0);
        let mut value = (0, 0);
        'hdr: {
            if !tchar(b) {
                if c.s && out.headers.is_empty() && ws(b) {
                    out.end_state = es::LEAD_WS;
                    while p < buf.len() && ws(buf[p]) {
                        p += 1;
                    }
                    continue 'line;
                }
                invalid = Some((E::HeaderName, p));
                break 'hdr;
            }
            out.end_state = es::NAME;
            let ns = p;
            while p < buf.len() && tchar(buf[p]) {
                p += 1;
            }
            name = (ns, p);
            let mut d = at!(buf, p);
            if d != b':' {
                if c.a && ws(d) {
                    out.end_state = es::WS_BEFORE_COLON;
                    while ws(d) {
                        p += 1;
                        d = at!(buf, p);
                    }
                    if d != b':' {
                        invalid = Some((E::HeaderName, p));
                        break 'hdr;
                    }
                } else {
                    invalid = Some((E::HeaderName, p));
                    break 'hdr;
                }
            }
            p += 1; // past the colon
            out.end_state = es::WS_AFTER_COLON;
            let vstart;
            loop {
                let b = at!(buf, p);
                if ws(b) {
                    p += 1;
                    continue;
                }
                if valchar(b) {
                    vstart = Some(p);
                    break;
                }
                let eol;
                if b == b'\r' {
                    match buf.get(p + 1) {
                        None => {
                            out.end_state = es::VALUE_CR;
                            return St::Partial;
                        }
                        Some(b'\n') => eol = p + 2,
                        Some(_) => return St::Err(E::HeaderValue),
                    }
                } else if b == b'\n' {
                    eol = p + 1;
                } else {
                    invalid = Some((E::HeaderValue, p));
                    break 'hdr;
                }
                if c.f {
                    match buf.get(eol) {
                        None => {
                            out.end_state = es::FOLD_PENDING;
                            return St::Partial;
                        }
                        Some(&x) if ws(x) => {
                            p = eol;
                            continue;
                        }
                        _ => {}
                    }
                }
                value = (p, p);
                p = eol;
                vstart = None;
                break;
            }
            if let Some(vs) = vstart {
                out.end_state = es::VALUE;
                loop {
                    while p < buf.len() && valchar(buf[p]) {
                        p += 1;
                    }
                    let b = at!(buf, p);
                    let eol;
                    if b == b'\r' {
                        match buf.get(p + 1) {
                            None => {
                                out.end_state = es::VALUE_CR;
                                return St::Partial;
                            }
                            Some(b'\n') => eol = p + 2,
                            Some(_) => return St::Err(E::HeaderValue),
                        }
                    } else if b == b'\n' {
                        eol = p + 1;
                    } else {
                        invalid = Some((E::HeaderValue, p));
                        break 'hdr;
                    }
                    if c.f {
                        match buf.get(eol) {
                            None => {
                                out.end_state = es::FOLD_PENDING;
                                return St::Partial;
                            }
                            Some(&x) if ws(x) => {
                                p = eol;
                                out.end_state = es::VALUE;
                                continue;
                            }
                            _ => {}
                        }
                    }
                    let mut ve = p;
                    while ve > vs && matches!(buf[ve - 1], b' ' | b'\t' | b'\r' | b'\n') {
                        ve -= 1;
                    }
                    value = (vs, ve);
                    p = eol;
                    break;
                }
            }
        }
        if let Some((kind, at)) = invalid {
            if !c.i {
                return St::Err(kind);
            }
            out.end_state = es::IGNORED;
            let mut q = at;
            loop {
                let b = at!(buf, q);
                if b == b'\r' {
                    match buf.get(q + 1) {
                        None => {
                            out.end_state = es::IGNORED_CR;
                            return St::Partial;
                        }
                        Some(b'\n') => {
                            q += 2;
                            break;
                        }
                        Some(_) => return St::Err(kind),
                    }
                }
                if b == b'\n' {
                    q += 1;
                    break;
                }
                if b == 0 {
                    return St::Err(kind);
                }
                q += 1;
            }
            out.ignored += 1;
            p = q;
            continue 'line;
        }
        if out.headers.len() == cap {
            return St::Err(E::TooManyHeaders);
        }
        out.headers.push((name, value));
    }
}

pub fn request(buf: &[u8], c: Cfg, cap: usize, out: &mut Out) -> St {
    let mut p = 0;
    out.end_state = es::LEADING;
    if let Some(s) = skip_empty_lines(buf, &mut p) {
        return s;
    }
    out.end_state = es::METHOD;
    let ms = p;
    let b = at!(buf, p);
    if !tchar(b) {
        return St::Err(E::Token);
    }
    while p < buf.len() && tchar(buf[p]) {
        p += 1;
    }
    if at!(buf, p) != b' ' {
        return St::Err(E::Token);
    }
    out.method = Some((ms, p));
    p += 1;
    if c.mreq {
        out.end_state = es::SP1;
        if let Some(s) = skip_sp(buf, &mut p) {
            return s;
        }
    }
    out.end_state = es::TARGET;
    let us = p;
    while p < buf.len() && urichar(buf[p]) {
        p += 1;
    }
    if at!(buf, p) != b' ' {
        return St::Err(E::Token);
    }
    if p == us || std::str::from_utf8(&buf[us..p]).is_err() {
        return St::Err(E::Token);
    }
    out.path = Some((us, p));
    p += 1;
    if c.mreq {
        out.end_state = es::SP2;
        if let Some(s) = skip_sp(buf, &mut p) {
            return s;
        }
    }
    out.end_state = es::VERSION;
    match version(buf, &mut p) {
        Ok(v) => out.version = Some(v),
        Err(s) => return s,
    }
    out.end_state = es::SL_EOL;
    match at!(buf, p) {
        b'\r' => {
            if at!(buf, p + 1) != b'\n' {
                return St::Err(E::NewLine);
            }
            p += 2;
        }
        b'\n' => p += 1,
        _ => return St::Err(E::NewLine),
    }
    headers(buf, p, HCfg { a: false, f: false, s: c.s, i: c.ireq }, cap, out)
}

pub fn response(buf: &[u8], c: Cfg, cap: usize, out: &mut Out) -> St {
    let mut p = 0;
    out.end_state = es::LEADING;
    if let Some(s) = skip_empty_lines(buf, &mut p) {
        return s;
    }
    out.end_state = es::VERSION;
    match version(buf, &mut p) {
        Ok(v) => out.version = Some(v),
        Err(s) => return s,
    }
    out.end_state = es::RVERSION_SP;
    if at!(buf, p) != b' ' {
        return St::Err(E::Version);
    }
    p += 1;
    if c.mresp {
        if let Some(s) = skip_sp(buf, &mut p) {
            return s;
        }
    }
    out.end_state = es::CODE;
    let mut code = 0u16;
    for _ in 0..3 {
        let d = at!(buf, p);
        if !d.is_ascii_digit() {
            return St::Err(E::Status);
        }
        code = code * 10 + (d - b'0') as u16;
        p += 1;
    }
    out.code = Some(code);
    out.end_state = es::AFTER_CODE;
    match at!(buf, p) {
        b' ' => {
            p += 1;
            if c.mresp {
                if let Some(s) = skip_sp(buf, &mut p) {
                    return s;
                }
            }
            out.end_state = es::REASON;
            let rs = p;
            let mut obs = false;
            loop {
                let b = at!(buf, p);
                if b == b'\r' {
                    if at!(buf, p + 1) != b'\n' {
                        return St::Err(E::Status);
                    }
                    out.reason = Some((rs, p, obs));
                    p += 2;
                    break;
                }
                if b == b'\n' {
                    out.reason = Some((rs, p, obs));
                    p += 1;
                    break;
                }
                if !reasonchar(b) {
                    return St::Err(E::Status);
                }
                if b >= 0x80 {
                    obs = true;
                }
                p += 1;
            }
        }
        b'\r' => {
            if at!(buf, p + 1) != b'\n' {
                return St::Err(E::Status);
            }
            p += 2;
            out.reason = Some((0, 0, true));
        }
        b'\n' => {
            p += 1;
            out.reason = Some((0, 0, true));
        }
        _ => return St::Err(E::Status),
    }
    headers(buf, p, HCfg { a: c.a, f: c.f, s: c.s, i: c.iresp }, cap, out)
}

/// Chunk-size line, strict reading of C09: 1..=16 hex digits, SP/HTAB*, optional ";" + non-CR
/// bytes, CR LF. Zero digits is an error at the first non-digit byte.
pub fn chunk(buf: &[u8], out: &mut Out) -> (St, u64) {
    let mut p = 0;
    let mut size: u64 = 0;
    let mut n = 0;
    out.end_state = es::CH_DIGITS;
    loop {
        let b = match buf.get(p) {
            Some(&b) => b,
            None => return (St::Partial, 0),
        };
        let d = match b {
            b'0'..=b'9' => b - b'0',
            b'a'..=b'f' => b - b'a' + 10,
            b'A'..=b'F' => b - b'A' + 10,
            _ => break,
        };
        if n == 16 {
            return (St::Err(E::Chunk), 0);
        }
        n += 1;
        size = size * 16 + d as u64;
        p += 1;
    }
    if n == 0 {
        return (St::Err(E::Chunk), 0);
    }
    out.end_state = es::CH_WS;
    while let Some(&b) = buf.get(p) {
        if ws(b) {
            p += 1
        } else {
            break;
        }
    }
    match buf.get(p) {
        None => return (St::Partial, 0),
        Some(b';') => {
            out.end_state = es::CH_EXT;
            p += 1;
            while let Some(&b) = buf.get(p) {
                if b != b'\r' {
                    p += 1
                } else {
                    break;
                }
            }
        }
        Some(b'\r') => {}
        Some(_) => return (St::Err(E::Chunk), 0),
    }
    match buf.get(p) {
        None => (St::Partial, 0),
        Some(b'\r') => {
            out.end_state = es::CH_CR;
            match buf.get(p + 1) {
                None => (St::Partial, 0),
                Some(b'\n') => {
                    out.end_state = es::DONE;
                    (St::Complete(p + 2), size)
                }
                Some(_) => (St::Err(E::Chunk), 0),
            }
        }
        Some(_) => (St::Err(E::Chunk), 0),
    }
}
