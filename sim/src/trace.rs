//! Trace: everything that decides one simulated run. `generate(seed)` produces one; a replay file
//! is a Trace serialised as JSON; minimisation edits a Trace. Execution is a pure function of the
//! Trace and the code under test.

use crate::arena::Place;
use crate::json::J;
use crate::sut::Kind;

#[derive(Clone, Copy, Debug, PartialEq, Eq, Hash)]
pub enum Scen {
    Conn = 0,
    Sweep = 1,
    Reuse = 2,
    Adversarial = 3,
    ByteSweep = 4,
}
impl Scen {
    pub fn name(&self) -> &'static str {
        ["conn", "prefix-sweep", "reuse", "adversarial", "byte-sweep"][*self as usize]
    }
    pub fn from_name(s: &str) -> Option<Scen> {
        Some(match s {
            "conn" => Scen::Conn,
            "prefix-sweep" => Scen::Sweep,
            "reuse" => Scen::Reuse,
            "adversarial" => Scen::Adversarial,
            "byte-sweep" => Scen::ByteSweep,
            _ => return None,
        })
    }
}

#[derive(Clone, Debug, PartialEq, Eq)]
pub enum Body {
    None,
    Len(usize),
    /// sizes of the data chunks (the terminating 0-chunk and trailer are implied)
    Chunked(Vec<u64>),
}

/// What the sender knows about a message it built.
#[derive(Clone, Debug, PartialEq, Eq)]
pub struct MsgTruth {
    /// offset of the message in the (uncorrupted) stream and total length incl. body
    pub start: usize,
    pub total: usize,
    pub head_len: usize,
    /// built strictly: meaning does not depend on the configuration
    pub strict: bool,
    pub method: Vec<u8>,
    pub path: Vec<u8>,
    pub version: u8,
    pub code: u16,
    pub reason: Vec<u8>,
    pub headers: Vec<(Vec<u8>, Vec<u8>)>,
    pub body: Body,
}

#[derive(Clone, Debug, PartialEq, Eq)]
pub struct Fault {
    pub kind: &'static str,
    pub at: usize,
    pub arg: u64,
}

#[derive(Clone, Copy, Debug, PartialEq, Eq)]
pub struct Delivery {
    pub upto: usize,
    pub place: Place,
    pub time_us: u64,
}

#[derive(Clone, Debug, Default)]
pub struct Conn {
    pub wire: Vec<u8>,
    /// sender truth for the leading messages not touched by any byte-changing fault
    pub truth: Vec<MsgTruth>,
    pub faults: Vec<Fault>,
    pub deliveries: Vec<Delivery>,
    /// a second, independent chunking of the same wire (C02 chunking invariance)
    pub alt: Vec<usize>,
    /// the receive buffer stays at one address for the whole connection (grows in place) instead
    /// of being re-placed on every delivery
    pub stable: bool,
}

#[derive(Clone, Debug)]
pub struct Op {
    pub buf: Vec<u8>,
    pub cfg: u8,
    pub entry: u8,
    pub cap: usize,
}

#[derive(Clone, Debug)]
pub struct Trace {
    pub scen: Scen,
    pub kind: Kind,
    pub cfg: u8,
    pub cap: usize,
    pub entry: u8,
    pub backend: u8,
    /// 0 fresh value per call, 1 kept across Partial, 2 kept across messages, 3 one value shared by all connections
    pub reuse: u8,
    pub arr_guard: bool,
    pub alloc_mode: u8,
    pub conns: Vec<Conn>,
    /// the global interleaving: which connection receives its next delivery, in event order
    pub order: Vec<u8>,
    pub ops: Vec<Op>,
    /// drives the sampled differential re-issues, so a replay repeats exactly the same samples
    pub knob_seed: u64,
    pub seed: u64,
    /// reuse scenario: ops whose buffer is a prefix of a later op's buffer share its memory
    pub stable: bool,
    /// threshold-probing run: a long clean element; the prefix sweep uses a lighter cut set
    pub thresh: bool,
}

impl Trace {
    pub fn empty(scen: Scen, kind: Kind) -> Trace {
        Trace { scen, kind, cfg: 0, cap: 16, entry: 1, backend: 0, reuse: 0, arr_guard: true, alloc_mode: 1, conns: Vec::new(), order: Vec::new(), ops: Vec::new(), knob_seed: 0, seed: 0, stable: false, thresh: false }
    }

    pub fn to_json(&self) -> J {
        let conns: Vec<J> = self
            .conns
            .iter()
            .map(|c| {
                J::obj()
                    .set("wire_hex", J::hex(&c.wire))
                    .set("wire_text", J::Str(crate::json::show(&c.wire)))
                    .set("truth_msgs", J::u(c.truth.len() as u64))
                    .set("truth", J::Arr(c.truth.iter().map(truth_json).collect()))
                    .set("faults", J::Arr(c.faults.iter().map(|f| J::obj().set("kind", J::str(f.kind)).set("at", J::u(f.at as u64)).set("arg", J::u(f.arg))).collect()))
                    .set(
                        "deliveries",
                        J::Arr(c.deliveries.iter().map(|d| J::Arr(vec![J::u(d.upto as u64), J::u(d.place.code() as u64), J::u(d.time_us)])).collect()),
                    )
                    .set("alt", J::Arr(c.alt.iter().map(|&u| J::u(u as u64)).collect()))
                    .set("stable", J::Bool(c.stable))
            })
            .collect();
        J::obj()
            .set("scenario", J::str(self.scen.name()))
            .set("kind", J::u(self.kind as u64))
            .set("kind_name", J::str(self.kind.name()))
            .set("cfg", J::u(self.cfg as u64))
            .set("cap", J::u(self.cap as u64))
            .set("entry", J::u(self.entry as u64))
            .set("backend", J::u(self.backend as u64))
            .set("reuse", J::u(self.reuse as u64))
            .set("arr_guard", J::Bool(self.arr_guard))
            .set("stable", J::Bool(self.stable))
            .set("thresh", J::Bool(self.thresh))
            .set("alloc_mode", J::u(self.alloc_mode as u64))
            .set("knob_seed", J::Str(self.knob_seed.to_string()))
            .set("seed", J::Str(self.seed.to_string()))
            .set("order", J::Arr(self.order.iter().map(|&c| J::u(c as u64)).collect()))
            .set("conns", J::Arr(conns))
            .set(
                "ops",
                J::Arr(
                    self.ops
                        .iter()
                        .map(|o| J::obj().set("buf_hex", J::hex(&o.buf)).set("buf_text", J::Str(crate::json::show(&o.buf))).set("cfg", J::u(o.cfg as u64)).set("entry", J::u(o.entry as u64)).set("cap", J::u(o.cap as u64)))
                        .collect(),
                ),
            )
    }

    pub fn from_json(j: &J) -> Result<Trace, String> {
        let g = |k: &str| j.get(k).ok_or(format!("missing {}", k));
        let mut t = Trace::empty(Scen::from_name(g("scenario")?.as_str().ok_or("scenario")?).ok_or("scenario name")?, Kind::from_u8(g("kind")?.as_u64().ok_or("kind")? as u8));
        t.cfg = g("cfg")?.as_u64().ok_or("cfg")? as u8;
        t.cap = g("cap")?.as_usize().ok_or("cap")?;
        t.entry = g("entry")?.as_u64().ok_or("entry")? as u8;
        t.backend = g("backend")?.as_u64().ok_or("backend")? as u8;
        t.reuse = g("reuse")?.as_u64().ok_or("reuse")? as u8;
        t.arr_guard = g("arr_guard")?.as_bool().ok_or("arr_guard")?;
        t.stable = j.get("stable").and_then(|x| x.as_bool()).unwrap_or(false);
        t.thresh = j.get("thresh").and_then(|x| x.as_bool()).unwrap_or(false);
        t.alloc_mode = g("alloc_mode")?.as_u64().ok_or("alloc_mode")? as u8;
        t.knob_seed = g("knob_seed")?.as_str().ok_or("knob_seed")?.parse().map_err(|_| "knob_seed")?;
        t.seed = g("seed")?.as_str().ok_or("seed")?.parse().map_err(|_| "seed")?;
        t.order = g("order")?.as_arr().ok_or("order")?.iter().map(|x| x.as_u64().unwrap_or(0) as u8).collect();
        for c in g("conns")?.as_arr().ok_or("conns")? {
            let mut conn = Conn::default();
            conn.wire = c.get("wire_hex").and_then(|x| x.as_hex()).ok_or("wire_hex")?;
            for d in c.get("deliveries").and_then(|x| x.as_arr()).ok_or("deliveries")? {
                let a = d.as_arr().ok_or("delivery")?;
                conn.deliveries.push(Delivery { upto: a[0].as_usize().ok_or("upto")?, place: Place::from_code(a[1].as_u64().ok_or("place")? as u32), time_us: a[2].as_u64().ok_or("time")? });
            }
            conn.stable = c.get("stable").and_then(|x| x.as_bool()).unwrap_or(false);
            conn.alt = c.get("alt").and_then(|x| x.as_arr()).map(|a| a.iter().filter_map(|x| x.as_usize()).collect()).unwrap_or_default();
            if let Some(tr) = c.get("truth").and_then(|x| x.as_arr()) {
                for m in tr {
                    conn.truth.push(truth_from_json(m)?);
                }
            }
            t.conns.push(conn);
        }
        for o in g("ops")?.as_arr().ok_or("ops")? {
            t.ops.push(Op {
                buf: o.get("buf_hex").and_then(|x| x.as_hex()).ok_or("buf_hex")?,
                cfg: o.get("cfg").and_then(|x| x.as_u64()).ok_or("op cfg")? as u8,
                entry: o.get("entry").and_then(|x| x.as_u64()).ok_or("op entry")? as u8,
                cap: o.get("cap").and_then(|x| x.as_usize()).ok_or("op cap")?,
            });
        }
        Ok(t)
    }
}

fn truth_json(m: &MsgTruth) -> J {
    J::obj()
        .set("start", J::u(m.start as u64))
        .set("total", J::u(m.total as u64))
        .set("head_len", J::u(m.head_len as u64))
        .set("strict", J::Bool(m.strict))
        .set("method", J::hex(&m.method))
        .set("path", J::hex(&m.path))
        .set("version", J::u(m.version as u64))
        .set("code", J::u(m.code as u64))
        .set("reason", J::hex(&m.reason))
        .set("headers", J::Arr(m.headers.iter().map(|(n, v)| J::Arr(vec![J::hex(n), J::hex(v)])).collect()))
        .set(
            "body",
            match &m.body {
                Body::None => J::Null,
                Body::Len(n) => J::u(*n as u64),
                Body::Chunked(v) => J::Arr(v.iter().map(|&s| J::Str(s.to_string())).collect()),
            },
        )
}

fn truth_from_json(j: &J) -> Result<MsgTruth, String> {
    let u = |k: &str| j.get(k).and_then(|x| x.as_usize()).ok_or(format!("truth {}", k));
    let h = |k: &str| j.get(k).and_then(|x| x.as_hex()).ok_or(format!("truth {}", k));
    let mut headers = Vec::new();
    for p in j.get("headers").and_then(|x| x.as_arr()).ok_or("truth headers")? {
        let a = p.as_arr().ok_or("hdr")?;
        headers.push((a[0].as_hex().ok_or("hn")?, a[1].as_hex().ok_or("hv")?));
    }
    let body = match j.get("body") {
        Some(J::Int(n)) => Body::Len(*n as usize),
        Some(J::Arr(a)) => Body::Chunked(a.iter().filter_map(|x| x.as_str().and_then(|s| s.parse().ok())).collect()),
        _ => Body::None,
    };
    Ok(MsgTruth {
        start: u("start")?,
        total: u("total")?,
        head_len: u("head_len")?,
        strict: j.get("strict").and_then(|x| x.as_bool()).unwrap_or(false),
        method: h("method")?,
        path: h("path")?,
        version: u("version")? as u8,
        code: u("code")? as u16,
        reason: h("reason")?,
        headers,
        body,
    })
}
