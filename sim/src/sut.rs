//! The system under test, driven only through httparse's public API (plus the guarded `__verif`
//! hooks). Every call is observed into an `Obs`: status, fields as offsets into the caller's
//! buffer, the state of the caller's header array, allocator calls and metered work.

use crate::alloc;
use crate::arena::Arena;
use crate::model::{Cfg, St, E};
use httparse::{Header, ParserConfig, Request, Response, Status};
use std::mem::MaybeUninit;
use std::panic::{catch_unwind, AssertUnwindSafe};

#[derive(Clone, Copy, Debug, PartialEq, Eq, Hash, PartialOrd, Ord)]
pub enum Kind {
    Req = 0,
    Resp = 1,
    Hdrs = 2,
    Chunk = 3,
}
impl Kind {
    pub fn from_u8(k: u8) -> Kind {
        match k {
            0 => Kind::Req,
            1 => Kind::Resp,
            2 => Kind::Hdrs,
            _ => Kind::Chunk,
        }
    }
    pub fn name(&self) -> &'static str {
        ["request", "response", "headers", "chunk_size"][*self as usize]
    }
}

pub const ENTRY_NAMES: [[&str; 4]; 2] = [
    ["Request::parse", "ParserConfig::parse_request", "Request::parse_with_uninit_headers", "ParserConfig::parse_request_with_uninit_headers"],
    ["Response::parse", "ParserConfig::parse_response", "Response::parse_with_uninit_headers", "ParserConfig::parse_response_with_uninit_headers"],
];

/// Backends of the runtime dispatch: 0 = real detection, 1 = AVX2, 2 = SSE4.2, 3 = scalar (SWAR).
pub const BACKEND_NAMES: [&str; 4] = ["auto", "avx2", "sse42", "swar"];

#[derive(Clone, Copy, Debug, PartialEq, Eq)]
pub struct CallSpec {
    pub kind: Kind,
    /// 0 = X::parse, 1 = ParserConfig::parse_x, 2 = X::parse_with_uninit_headers,
    /// 3 = ParserConfig::parse_x_with_uninit_headers. 0 and 2 imply the default config.
    pub entry: u8,
    pub cfg: u8,
    /// header capacity for a fresh value / for the uninit array handed to this call
    pub cap: usize,
    pub backend: u8,
    /// header array ends at a guard page
    pub arr_guard: bool,
    /// 0 = allocator disarmed, 1 = counting, 2 = failing; +4 = environment fault (every getenv
    /// lookup during the call finds the variable set)
    pub alloc_mode: u8,
}

pub fn make_config(bits: u8) -> ParserConfig {
    // All seven setters are always called (with true or false), in an order that is a pure
    // function of the bits: a configuration must not depend on the order in which it was built.
    let c = Cfg::from_bits(bits);
    let mut p = ParserConfig::default();
    let mut order = [0usize, 1, 2, 3, 4, 5, 6];
    let mut z = crate::rng::mix(bits as u64 ^ 0x5eed);
    for i in (1..7).rev() {
        z = crate::rng::mix(z);
        order.swap(i, (z % (i as u64 + 1)) as usize);
    }
    // ... nor on its history: in a first pass some options (again a function of the bits) are set
    // to the OPPOSITE of their final value, as a caller that toggles a cloned config would do
    z = crate::rng::mix(z);
    let flip_first = (z & 0x7f) as u8;
    for pass in 0..2 {
        for k in order {
            if pass == 0 && flip_first & (1 << k) == 0 {
                continue;
            }
            let inv = pass == 0;
            match k {
                0 => {
                    p.allow_spaces_after_header_name_in_responses(c.a ^ inv);
                }
                1 => {
                    p.allow_obsolete_multiline_headers_in_responses(c.f ^ inv);
                }
                2 => {
                    p.allow_multiple_spaces_in_request_line_delimiters(c.mreq ^ inv);
                }
                3 => {
                    p.allow_multiple_spaces_in_response_status_delimiters(c.mresp ^ inv);
                }
                4 => {
                    p.allow_space_before_first_header_name(c.s ^ inv);
                }
                5 => {
                    p.ignore_invalid_headers_in_responses(c.iresp ^ inv);
                }
                _ => {
                    p.ignore_invalid_headers_in_requests(c.ireq ^ inv);
                }
            }
        }
    }
    p
}

fn map_err(e: httparse::Error) -> E {
    use httparse::Error as X;
    match e {
        X::HeaderName => E::HeaderName,
        X::HeaderValue => E::HeaderValue,
        X::NewLine => E::NewLine,
        X::Status => E::Status,
        X::Token => E::Token,
        X::TooManyHeaders => E::TooManyHeaders,
        X::Version => E::Version,
    }
}
fn map_st(r: httparse::Result<usize>) -> St {
    match r {
        Ok(Status::Complete(n)) => St::Complete(n),
        Ok(Status::Partial) => St::Partial,
        Err(e) => St::Err(map_err(e)),
    }
}

/// A slice handed back by the parser, located relative to the caller's buffer.
#[derive(Clone, Debug, PartialEq, Eq)]
pub struct FieldObs {
    /// offset of the slice start from the buffer start (meaningful only if `inside`)
    pub off: usize,
    pub len: usize,
    /// the whole slice lies inside [buf, buf+len]
    pub inside: bool,
    pub bytes: Vec<u8>,
}
impl FieldObs {
    fn of(buf: &[u8], s: &[u8]) -> FieldObs {
        let b0 = buf.as_ptr() as usize;
        let p = s.as_ptr() as usize;
        let inside = p >= b0 && p + s.len() <= b0 + buf.len();
        FieldObs { off: if inside { p - b0 } else { usize::MAX }, len: s.len(), inside, bytes: s.to_vec() }
    }
    pub fn end(&self) -> usize {
        self.off.wrapping_add(self.len)
    }
}

#[derive(Clone, Debug, PartialEq, Eq)]
pub struct HdrObs {
    pub name: FieldObs,
    pub value: FieldObs,
}

#[derive(Clone, Debug, PartialEq, Eq)]
pub enum Slot {
    /// byte-identical to the pre-call snapshot
    Untouched,
    /// holds a header whose non-empty parts point into this call's buffer
    Written(HdrObs),
    /// changed, but not into a header from this buffer
    Foreign,
}

#[derive(Clone, Debug)]
pub struct Obs {
    pub st: St,
    pub chunk: u64,
    pub method: Option<FieldObs>,
    pub path: Option<FieldObs>,
    pub version: Option<u8>,
    pub code: Option<u16>,
    pub reason: Option<FieldObs>,
    /// what `headers` refers to after the call (Complete: the parsed headers)
    pub headers: Vec<HdrObs>,
    /// position of the exposed headers slice relative to the array this call was given, in
    /// elements; None if it does not start inside that array (e.g. an empty or older slice)
    pub hdr_off: Option<usize>,
    pub hdr_len: usize,
    /// the exposed slice contains a slot that still holds the uninit poison pattern
    pub poison_exposed: bool,
    /// state of every slot of the array this call was given
    pub slots: Vec<Slot>,
    /// capacity the parser could use in this call
    pub eff_cap: usize,
    pub uninit: bool,
    /// for uninit entry points on Partial/Err: `headers` of the value is the same slice as before
    pub headers_untouched: bool,
    pub allocs: u64,
    pub alloc_size: u64,
    /// (cursors created, bytes advanced, advance calls, block peeks, bytes moved backwards)
    pub work: (u64, u64, u64, u64, u64),
    pub buf_len: usize,
    pub panic_msg: Option<String>,
    /// getenv lookups made during the call (only counted in environment-fault runs)
    pub env_lookups: u64,
}

static SENTINEL: [u8; 4096] = [b'~'; 4096];
pub const POISON: u8 = 0xA5;
const HSZ: usize = std::mem::size_of::<Header<'static>>();

fn sentinel(i: usize) -> Header<'static> {
    let k = i % 2048;
    // SAFETY: '~' is ASCII
    let name = unsafe { std::str::from_utf8_unchecked(&SENTINEL[k..k + 1]) };
    Header { name, value: &SENTINEL[2048 + k..2048 + k + 1] }
}

fn is_sentinel_ptr(p: *const u8) -> bool {
    let s = SENTINEL.as_ptr() as usize;
    (p as usize) >= s && (p as usize) < s + 4096
}

#[cfg(hp_rt)]
pub fn set_backend(b: u8) {
    httparse::__verif::force_backend(b);
    httparse::__verif::reset_cache();
}
#[cfg(not(hp_rt))]
pub fn set_backend(_b: u8) {}
pub const HAS_BACKEND_SEAM: bool = cfg!(hp_rt);

#[cfg(httparse_verif)]
fn take_work() -> (u64, u64, u64, u64, u64) {
    httparse::__verif::take_counters()
}
#[cfg(not(httparse_verif))]
fn take_work() -> (u64, u64, u64, u64, u64) {
    (0, 0, 0, 0, 0)
}
pub const HAS_METER: bool = cfg!(httparse_verif);

enum Val {
    Req(Request<'static, 'static>),
    Resp(Response<'static, 'static>),
}

/// A simulated receiver's parser state: the Request/Response value it keeps (or not) between calls.
pub struct Session {
    val: Option<Val>,
    cur_backend: u8,
}

/// A slot of an uninit array in which at least one of the four pointer/length words was never
/// written (still the poison pattern).
fn has_poison_word(slot: &[u8]) -> bool {
    slot.chunks_exact(8).any(|w| w.iter().all(|&x| x == POISON))
}

fn raw_bytes(p: *const u8, n: usize) -> Vec<u8> {
    if cfg!(miri) {
        // under Miri the array is never inspected behind the value's back (that would itself
        // violate the aliasing model); Miri's own checks take the monitor's place
        return Vec::new();
    }
    // SAFETY: callers pass memory they own that was fully written with u8 values before
    unsafe { std::slice::from_raw_parts(p, n).to_vec() }
}

fn hdr_obs(buf: &[u8], h: &Header<'_>) -> HdrObs {
    HdrObs { name: FieldObs::of(buf, h.name.as_bytes()), value: FieldObs::of(buf, h.value) }
}

impl Session {
    pub fn new() -> Session {
        Session { val: None, cur_backend: 255 }
    }
    pub fn forget(&mut self) {
        self.val = None;
    }
    pub fn has_value(&self) -> bool {
        self.val.is_some()
    }
    /// Current length of the kept value's `headers` slice (the capacity an init entry point sees).
    pub fn current_cap(&self) -> Option<usize> {
        match &self.val {
            Some(Val::Req(r)) => Some(r.headers.len()),
            Some(Val::Resp(r)) => Some(r.headers.len()),
            None => None,
        }
    }

    fn backend(&mut self, b: u8) {
        if self.cur_backend != b {
            set_backend(b);
            self.cur_backend = b;
        }
    }

    /// One parse call. `buf` must have been placed by `arena` (so it outlives the session value).
    /// If `keep` is false the value is dropped afterwards (fresh value per call).
    pub fn call(&mut self, arena: &mut Arena, spec: &CallSpec, buf: &'static [u8], keep: bool) -> Obs {
        self.backend(spec.backend);
        let obs = match spec.kind {
            Kind::Chunk => call_chunk(spec, buf),
            Kind::Hdrs => call_headers(arena, spec, buf),
            Kind::Req | Kind::Resp => self.call_msg(arena, spec, buf),
        };
        if !keep || obs.st == St::Panic {
            self.val = None;
        }
        obs
    }

    fn call_msg(&mut self, arena: &mut Arena, spec: &CallSpec, buf: &'static [u8]) -> Obs {
        let is_req = spec.kind == Kind::Req;
        let uninit = spec.entry >= 2;
        // make sure the kept value is of the right kind
        match (&self.val, is_req) {
            (Some(Val::Req(_)), true) | (Some(Val::Resp(_)), false) => {}
            _ => self.val = None,
        }
        if self.val.is_none() {
            let arr: &'static mut [Header<'static>] = if uninit {
                &mut []
            } else {
                let p = arena.raw(spec.cap * HSZ, spec.arr_guard, 0) as *mut Header<'static>;
                // SAFETY: p points to cap*HSZ writable bytes aligned to 8, living until arena.reset()
                unsafe {
                    for i in 0..spec.cap {
                        p.add(i).write(sentinel(i));
                    }
                    std::slice::from_raw_parts_mut(p, spec.cap)
                }
            };
            self.val = Some(if is_req { Val::Req(Request::new(arr)) } else { Val::Resp(Response::new(arr)) });
        }
        // the array this call can write to
        let (arr_ptr, arr_len, before_ptr, before_len): (*mut u8, usize, *const u8, usize);
        let mut uninit_arr: Option<&'static mut [MaybeUninit<Header<'static>>]> = None;
        {
            let (hp, hl) = match self.val.as_ref().unwrap() {
                Val::Req(r) => (r.headers.as_ptr() as *const u8, r.headers.len()),
                Val::Resp(r) => (r.headers.as_ptr() as *const u8, r.headers.len()),
            };
            before_ptr = hp;
            before_len = hl;
            if uninit {
                let p = arena.raw(spec.cap * HSZ, spec.arr_guard, POISON);
                arr_ptr = p;
                arr_len = spec.cap;
                // SAFETY: memory is valid for cap MaybeUninit<Header> until arena.reset()
                uninit_arr = Some(unsafe { std::slice::from_raw_parts_mut(p as *mut MaybeUninit<Header<'static>>, spec.cap) });
            } else {
                arr_ptr = hp as *mut u8;
                arr_len = hl;
            }
        }
        let snapshot = raw_bytes(arr_ptr, arr_len * HSZ);
        let cfg = make_config(spec.cfg);
        let entry = spec.entry;
        debug_assert!(spec.cfg == 0 || entry == 1 || entry == 3);

        let _ = take_work();
        if spec.alloc_mode & 4 != 0 {
            // a cold cache, as in a fresh process, so first-call work happens inside the window
            self.cur_backend = 255;
            self.backend(spec.backend);
            alloc::arm_env(true);
        }
        alloc::arm(spec.alloc_mode & 3);
        let val = self.val.as_mut().unwrap();
        let res = catch_unwind(AssertUnwindSafe(|| match val {
            Val::Req(r) => map_st(match entry {
                0 => r.parse(buf),
                1 => cfg.parse_request(r, buf),
                2 => r.parse_with_uninit_headers(buf, uninit_arr.take().unwrap()),
                _ => cfg.parse_request_with_uninit_headers(r, buf, uninit_arr.take().unwrap()),
            }),
            Val::Resp(r) => map_st(match entry {
                0 => r.parse(buf),
                1 => cfg.parse_response(r, buf),
                // Response has no parse_with_uninit_headers of its own: entry 2 is served by the
                // ParserConfig method with the default config
                _ => cfg.parse_response_with_uninit_headers(r, buf, uninit_arr.take().unwrap()),
            }),
        }));
        let (allocs, alloc_size) = alloc::disarm();
        let env_lookups = alloc::disarm_env();
        let work = take_work();
        let (st, panic_msg) = match res {
            Ok(st) => (st, None),
            Err(p) => {
                let m = if let Some(s) = p.downcast_ref::<&str>() {
                    s.to_string()
                } else if let Some(s) = p.downcast_ref::<String>() {
                    s.clone()
                } else {
                    "panic".to_string()
                };
                (St::Panic, Some(m))
            }
        };
        let mut o = Obs {
            st,
            chunk: 0,
            method: None,
            path: None,
            version: None,
            code: None,
            reason: None,
            headers: Vec::new(),
            hdr_off: None,
            hdr_len: 0,
            poison_exposed: false,
            slots: Vec::new(),
            eff_cap: arr_len,
            uninit,
            headers_untouched: false,
            allocs,
            alloc_size,
            work,
            buf_len: buf.len(),
            panic_msg,
            env_lookups: 0,
        };
        o.env_lookups = env_lookups;
        if st == St::Panic {
            return o;
        }
        // observe the value
        let (hp, hl) = match self.val.as_ref().unwrap() {
            Val::Req(r) => {
                o.method = r.method.map(|s| FieldObs::of(buf, s.as_bytes()));
                o.path = r.path.map(|s| FieldObs::of(buf, s.as_bytes()));
                o.version = r.version;
                (r.headers.as_ptr() as *const u8, r.headers.len())
            }
            Val::Resp(r) => {
                o.version = r.version;
                o.code = r.code;
                o.reason = r.reason.map(|s| FieldObs::of(buf, s.as_bytes()));
                (r.headers.as_ptr() as *const u8, r.headers.len())
            }
        };
        o.hdr_len = hl;
        o.headers_untouched = hp == before_ptr && hl == before_len;
        let a0 = arr_ptr as usize;
        let within = (hp as usize) >= a0 && (hp as usize) + hl * HSZ <= a0 + arr_len * HSZ && ((hp as usize) - a0) % HSZ == 0;
        if within && (hl > 0 || hp as usize == a0) {
            o.hdr_off = Some(((hp as usize) - a0) / HSZ);
        }
        // which slots of the call's array changed
        let after = raw_bytes(arr_ptr, arr_len * HSZ);
        for i in 0..(if cfg!(miri) { 0 } else { arr_len }) {
            let (b, a) = (&snapshot[i * HSZ..(i + 1) * HSZ], &after[i * HSZ..(i + 1) * HSZ]);
            if a == b {
                o.slots.push(Slot::Untouched);
            } else if has_poison_word(a) {
                // wholly or partly unwritten (a pointer or length word still holds the poison
                // pattern): never dereferenced by the harness
                o.slots.push(Slot::Foreign);
            } else {
                // SAFETY: the slot was overwritten by the parser with a Header value (it is not
                // poison and differs from the snapshot); reading it as Header is what a caller
                // would do with an exposed slot.
                let h: Header<'static> = unsafe { (arr_ptr as *const Header<'static>).add(i).read() };
                let ho = hdr_obs(buf, &h);
                if (ho.name.inside || ho.name.len == 0) && (ho.value.inside || ho.value.len == 0) {
                    o.slots.push(Slot::Written(ho));
                } else {
                    o.slots.push(Slot::Foreign);
                }
            }
        }
        // read the exposed headers only if that is safe: inside the array of this call, and no
        // exposed slot still holds poison; or the slice the value had before (then it is old,
        // initialised data).
        let exposed_ok = if o.hdr_off.is_some() {
            let off = o.hdr_off.unwrap();
            let mut ok = true;
            for i in off..off + hl {
                // (also on init entry points: a kept value may carry a slot an earlier uninit call left unwritten)
                if !cfg!(miri) && has_poison_word(&after[i * HSZ..(i + 1) * HSZ]) {
                    o.poison_exposed = true;
                    ok = false;
                }
            }
            ok
        } else {
            o.headers_untouched
        };
        // whatever `headers` refers to (possibly a slice an earlier call on this value installed):
        // never read a slot in which a pointer or length word is still unwritten
        let exposed_ok = exposed_ok && {
            let raw = raw_bytes(hp, hl * HSZ);
            let clean = cfg!(miri) || !raw.chunks_exact(HSZ).any(has_poison_word);
            if !clean {
                o.poison_exposed = true;
            }
            clean
        };
        if exposed_ok {
            let hs: &[Header<'static>] = match self.val.as_ref().unwrap() {
                Val::Req(r) => &r.headers[..],
                Val::Resp(r) => &r.headers[..],
            };
            // sentinel headers (never parsed from a buffer) are reported as outside fields
            o.headers = hs.iter().map(|h| hdr_obs(buf, h)).collect();
        }
        o
    }
}

pub fn is_sentinel(h: &HdrObs) -> bool {
    !h.name.inside && h.name.len == 1 && h.name.bytes == b"~" && !h.value.inside && h.value.len == 1
}

fn call_chunk(spec: &CallSpec, buf: &'static [u8]) -> Obs {
    let _ = take_work();
    alloc::arm(spec.alloc_mode & 3);
    let res = catch_unwind(|| httparse::parse_chunk_size(buf));
    let (allocs, alloc_size) = alloc::disarm();
    let work = take_work();
    let (st, chunk, panic_msg) = match res {
        Ok(Ok(Status::Complete((n, s)))) => (St::Complete(n), s, None),
        Ok(Ok(Status::Partial)) => (St::Partial, 0, None),
        Ok(Err(_)) => (St::Err(E::Chunk), 0, None),
        Err(p) => (St::Panic, 0, Some(p.downcast_ref::<&str>().map(|s| s.to_string()).or_else(|| p.downcast_ref::<String>().cloned()).unwrap_or_default())),
    };
    Obs {
        st,
        chunk,
        method: None,
        path: None,
        version: None,
        code: None,
        reason: None,
        headers: Vec::new(),
        hdr_off: None,
        hdr_len: 0,
        poison_exposed: false,
        slots: Vec::new(),
        eff_cap: 0,
        uninit: false,
        headers_untouched: true,
        allocs,
        alloc_size,
        work,
        buf_len: buf.len(),
        panic_msg,
        env_lookups: 0,
    }
}

fn call_headers(arena: &mut Arena, spec: &CallSpec, buf: &'static [u8]) -> Obs {
    let p = arena.raw(spec.cap * HSZ, spec.arr_guard, 0) as *mut Header<'static>;
    // SAFETY: p points to cap*HSZ writable bytes aligned to 8, living until arena.reset()
    let arr: &'static mut [Header<'static>] = unsafe {
        for i in 0..spec.cap {
            p.add(i).write(sentinel(i));
        }
        std::slice::from_raw_parts_mut(p, spec.cap)
    };
    let snapshot = raw_bytes(p as *const u8, spec.cap * HSZ);
    let _ = take_work();
    alloc::arm(spec.alloc_mode & 3);
    let res = catch_unwind(AssertUnwindSafe(|| match httparse::parse_headers(buf, arr) {
        Ok(Status::Complete((n, hs))) => (St::Complete(n), Some((hs.as_ptr() as usize, hs.len()))),
        Ok(Status::Partial) => (St::Partial, None),
        Err(e) => (St::Err(map_err(e)), None),
    }));
    let (allocs, alloc_size) = alloc::disarm();
    let work = take_work();
    let mut o = Obs {
        st: St::Panic,
        chunk: 0,
        method: None,
        path: None,
        version: None,
        code: None,
        reason: None,
        headers: Vec::new(),
        hdr_off: None,
        hdr_len: 0,
        poison_exposed: false,
        slots: Vec::new(),
        eff_cap: spec.cap,
        uninit: false,
        headers_untouched: false,
        allocs,
        alloc_size,
        work,
        buf_len: buf.len(),
        panic_msg: None,
        env_lookups: 0,
    };
    let (st, hs) = match res {
        Ok(x) => x,
        Err(pn) => {
            o.panic_msg = Some(pn.downcast_ref::<&str>().map(|s| s.to_string()).or_else(|| pn.downcast_ref::<String>().cloned()).unwrap_or_default());
            return o;
        }
    };
    o.st = st;
    let after = raw_bytes(p as *const u8, spec.cap * HSZ);
    for i in 0..(if cfg!(miri) { 0 } else { spec.cap }) {
        let (b, a) = (&snapshot[i * HSZ..(i + 1) * HSZ], &after[i * HSZ..(i + 1) * HSZ]);
        if a == b {
            o.slots.push(Slot::Untouched);
        } else {
            // SAFETY: array was fully initialised with sentinels; any slot is a valid Header
            let h: Header<'static> = unsafe { p.add(i).read() };
            let ho = hdr_obs(buf, &h);
            if (ho.name.inside || ho.name.len == 0) && (ho.value.inside || ho.value.len == 0) {
                o.slots.push(Slot::Written(ho));
            } else {
                o.slots.push(Slot::Foreign);
            }
        }
    }
    if let Some((hp, hl)) = hs {
        o.hdr_len = hl;
        let a0 = p as usize;
        if hp >= a0 && hp + hl * HSZ <= a0 + spec.cap * HSZ && (hp - a0) % HSZ == 0 {
            let off = (hp - a0) / HSZ;
            o.hdr_off = Some(off);
            for i in off..off + hl {
                // SAFETY: inside the fully initialised array
                let h: Header<'static> = unsafe { p.add(i).read() };
                o.headers.push(hdr_obs(buf, &h));
            }
        }
    }
    let _ = is_sentinel_ptr;
    o
}
