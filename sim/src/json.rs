//! Minimal JSON value, writer and parser (no dependencies). Used for replay files and evidence.

#[derive(Clone, Debug, PartialEq)]
pub enum J {
    Null,
    Bool(bool),
    Int(i64),
    F(f64),
    Str(String),
    Arr(Vec<J>),
    Obj(Vec<(String, J)>),
}

impl J {
    pub fn obj() -> J {
        J::Obj(Vec::new())
    }
    pub fn set(mut self, k: &str, v: J) -> J {
        if let J::Obj(ref mut o) = self {
            o.push((k.to_string(), v));
        }
        self
    }
    pub fn put(&mut self, k: &str, v: J) {
        if let J::Obj(ref mut o) = self {
            if let Some(e) = o.iter_mut().find(|e| e.0 == k) {
                e.1 = v;
            } else {
                o.push((k.to_string(), v));
            }
        }
    }
    pub fn get(&self, k: &str) -> Option<&J> {
        match self {
            J::Obj(o) => o.iter().find(|e| e.0 == k).map(|e| &e.1),
            _ => None,
        }
    }
    pub fn str(s: &str) -> J {
        J::Str(s.to_string())
    }
    pub fn u(n: u64) -> J {
        J::Int(n as i64)
    }
    pub fn as_i64(&self) -> Option<i64> {
        match self {
            J::Int(i) => Some(*i),
            J::F(f) => Some(*f as i64),
            _ => None,
        }
    }
    pub fn as_u64(&self) -> Option<u64> {
        self.as_i64().map(|i| i as u64)
    }
    pub fn as_usize(&self) -> Option<usize> {
        self.as_i64().map(|i| i as usize)
    }
    pub fn as_str(&self) -> Option<&str> {
        match self {
            J::Str(s) => Some(s),
            _ => None,
        }
    }
    pub fn as_bool(&self) -> Option<bool> {
        match self {
            J::Bool(b) => Some(*b),
            _ => None,
        }
    }
    pub fn as_arr(&self) -> Option<&Vec<J>> {
        match self {
            J::Arr(a) => Some(a),
            _ => None,
        }
    }
    pub fn hex(b: &[u8]) -> J {
        J::Str(hex(b))
    }
    pub fn as_hex(&self) -> Option<Vec<u8>> {
        unhex(self.as_str()?)
    }

    pub fn write(&self, out: &mut String, indent: usize, level: usize) {
        match self {
            J::Null => out.push_str("null"),
            J::Bool(b) => out.push_str(if *b { "true" } else { "false" }),
            J::Int(i) => out.push_str(&i.to_string()),
            J::F(f) => {
                if f.is_finite() {
                    let s = format!("{:.3}", f);
                    out.push_str(&s);
                } else {
                    out.push_str("0")
                }
            }
            J::Str(s) => write_str(s, out),
            J::Arr(a) => {
                out.push('[');
                let simple = a.iter().all(|x| !matches!(x, J::Arr(_) | J::Obj(_)));
                for (i, x) in a.iter().enumerate() {
                    if i > 0 {
                        out.push(',');
                    }
                    if indent > 0 && !simple {
                        nl(out, indent, level + 1);
                    } else if i > 0 {
                        out.push(' ');
                    }
                    x.write(out, indent, level + 1);
                }
                if indent > 0 && !simple && !a.is_empty() {
                    nl(out, indent, level);
                }
                out.push(']');
            }
            J::Obj(o) => {
                out.push('{');
                for (i, (k, v)) in o.iter().enumerate() {
                    if i > 0 {
                        out.push(',');
                    }
                    if indent > 0 {
                        nl(out, indent, level + 1);
                    }
                    write_str(k, out);
                    out.push_str(": ");
                    v.write(out, indent, level + 1);
                }
                if indent > 0 && !o.is_empty() {
                    nl(out, indent, level);
                }
                out.push('}');
            }
        }
    }
    pub fn pretty(&self) -> String {
        let mut s = String::new();
        self.write(&mut s, 1, 0);
        s.push('\n');
        s
    }
    pub fn compact(&self) -> String {
        let mut s = String::new();
        self.write(&mut s, 0, 0);
        s
    }
    pub fn parse(s: &str) -> Result<J, String> {
        let mut p = P { b: s.as_bytes(), i: 0 };
        let v = p.value()?;
        p.ws();
        if p.i != p.b.len() {
            return Err(format!("trailing data at {}", p.i));
        }
        Ok(v)
    }
}

fn nl(out: &mut String, indent: usize, level: usize) {
    out.push('\n');
    for _ in 0..indent * level {
        out.push(' ');
    }
}

fn write_str(s: &str, out: &mut String) {
    out.push('"');
    for c in s.chars() {
        match c {
            '"' => out.push_str("\\\""),
            '\\' => out.push_str("\\\\"),
            '\n' => out.push_str("\\n"),
            '\r' => out.push_str("\\r"),
            '\t' => out.push_str("\\t"),
            c if (c as u32) < 0x20 => out.push_str(&format!("\\u{:04x}", c as u32)),
            c => out.push(c),
        }
    }
    out.push('"');
}

pub fn hex(b: &[u8]) -> String {
    const H: &[u8; 16] = b"0123456789abcdef";
    let mut s = String::with_capacity(b.len() * 2);
    for &x in b {
        s.push(H[(x >> 4) as usize] as char);
        s.push(H[(x & 15) as usize] as char);
    }
    s
}

pub fn unhex(s: &str) -> Option<Vec<u8>> {
    let b = s.as_bytes();
    if b.len() % 2 != 0 {
        return None;
    }
    let d = |c: u8| -> Option<u8> {
        match c {
            b'0'..=b'9' => Some(c - b'0'),
            b'a'..=b'f' => Some(c - b'a' + 10),
            b'A'..=b'F' => Some(c - b'A' + 10),
            _ => None,
        }
    };
    let mut v = Vec::with_capacity(b.len() / 2);
    for p in b.chunks(2) {
        v.push(d(p[0])? << 4 | d(p[1])?);
    }
    Some(v)
}

/// Printable rendering of bytes for human-readable reports (escapes everything non-graphic).
pub fn show(b: &[u8]) -> String {
    let mut s = String::new();
    for &c in b {
        match c {
            b'\r' => s.push_str("\\r"),
            b'\n' => s.push_str("\\n"),
            b'\t' => s.push_str("\\t"),
            b'\\' => s.push_str("\\\\"),
            0x20..=0x7e => s.push(c as char),
            _ => s.push_str(&format!("\\x{:02x}", c)),
        }
    }
    s
}

struct P<'a> {
    b: &'a [u8],
    i: usize,
}
impl<'a> P<'a> {
    fn ws(&mut self) {
        while self.i < self.b.len() && matches!(self.b[self.i], b' ' | b'\n' | b'\r' | b'\t') {
            self.i += 1;
        }
    }
    fn value(&mut self) -> Result<J, String> {
        self.ws();
        match self.b.get(self.i) {
            None => Err("eof".into()),
            Some(b'{') => {
                self.i += 1;
                let mut o = Vec::new();
                loop {
                    self.ws();
                    if self.b.get(self.i) == Some(&b'}') {
                        self.i += 1;
                        break;
                    }
                    let k = match self.value()? {
                        J::Str(s) => s,
                        _ => return Err("key".into()),
                    };
                    self.ws();
                    if self.b.get(self.i) != Some(&b':') {
                        return Err(format!("colon at {}", self.i));
                    }
                    self.i += 1;
                    let v = self.value()?;
                    o.push((k, v));
                    self.ws();
                    match self.b.get(self.i) {
                        Some(b',') => self.i += 1,
                        Some(b'}') => {
                            self.i += 1;
                            break;
                        }
                        _ => return Err(format!("obj at {}", self.i)),
                    }
                }
                Ok(J::Obj(o))
            }
            Some(b'[') => {
                self.i += 1;
                let mut a = Vec::new();
                loop {
                    self.ws();
                    if self.b.get(self.i) == Some(&b']') {
                        self.i += 1;
                        break;
                    }
                    a.push(self.value()?);
                    self.ws();
                    match self.b.get(self.i) {
                        Some(b',') => self.i += 1,
                        Some(b']') => {
                            self.i += 1;
                            break;
                        }
                        _ => return Err(format!("arr at {}", self.i)),
                    }
                }
                Ok(J::Arr(a))
            }
            Some(b'"') => {
                self.i += 1;
                let mut s = Vec::new();
                loop {
                    match self.b.get(self.i) {
                        None => return Err("eof in string".into()),
                        Some(b'"') => {
                            self.i += 1;
                            break;
                        }
                        Some(b'\\') => {
                            self.i += 1;
                            match self.b.get(self.i) {
                                Some(b'n') => s.push(b'\n'),
                                Some(b'r') => s.push(b'\r'),
                                Some(b't') => s.push(b'\t'),
                                Some(b'"') => s.push(b'"'),
                                Some(b'\\') => s.push(b'\\'),
                                Some(b'/') => s.push(b'/'),
                                Some(b'u') => {
                                    let h = std::str::from_utf8(self.b.get(self.i + 1..self.i + 5).ok_or("u")?).map_err(|_| "u")?;
                                    let c = u32::from_str_radix(h, 16).map_err(|_| "u")?;
                                    let ch = char::from_u32(c).unwrap_or('?');
                                    let mut tmp = [0u8; 4];
                                    s.extend_from_slice(ch.encode_utf8(&mut tmp).as_bytes());
                                    self.i += 4;
                                }
                                _ => return Err("escape".into()),
                            }
                            self.i += 1;
                        }
                        Some(&c) => {
                            s.push(c);
                            self.i += 1;
                        }
                    }
                }
                Ok(J::Str(String::from_utf8(s).map_err(|_| "utf8")?))
            }
            Some(b't') if self.b[self.i..].starts_with(b"true") => {
                self.i += 4;
                Ok(J::Bool(true))
            }
            Some(b'f') if self.b[self.i..].starts_with(b"false") => {
                self.i += 5;
                Ok(J::Bool(false))
            }
            Some(b'n') if self.b[self.i..].starts_with(b"null") => {
                self.i += 4;
                Ok(J::Null)
            }
            Some(_) => {
                let st = self.i;
                while self.i < self.b.len() && matches!(self.b[self.i], b'-' | b'+' | b'.' | b'e' | b'E' | b'0'..=b'9') {
                    self.i += 1;
                }
                let t = std::str::from_utf8(&self.b[st..self.i]).unwrap();
                if let Ok(i) = t.parse::<i64>() {
                    Ok(J::Int(i))
                } else if let Ok(u) = t.parse::<u64>() {
                    Ok(J::Int(u as i64))
                } else {
                    t.parse::<f64>().map(J::F).map_err(|_| format!("number at {}", st))
                }
            }
        }
    }
}
