//! Sender, wire faults and delivery schedules: `generate(seed, scen, ...) -> Trace` (pure).

use crate::arena::{Mode, Place, Tail};
use crate::rng::Rng;
use crate::sut::Kind;
use crate::trace::*;

const TCHARS: &[u8] = b"abcdefghijklmnopqrstuvwxyzABCDEFGHIJKLMNOPQRSTUVWXYZ0123456789!#$%&'*+-.^_`|~";
/// Boundary palette for substituted / inserted bytes.
pub const PAL: &[u8] = b"\0\x01\x08\t\n\x0b\x0c\r\x1f !\"#(),/0189:;<=?@AFGHPTZ[\\]^_`afgz{|}~\x7f\x80\x81\xbf\xc0\xc2\xe2\xf0\xff";

#[derive(Clone, Debug)]
pub struct Swarm {
    pub lf_only: u64,      // /16 chance that a line ends in bare LF
    pub lenient: u64,      // /16 chance per message to contain a lenient construct
    pub invalid: u64,      // /16 chance per message to contain an invalid line
    pub long_tok: u64,     // /16 chance that a token is long (up to 100)
    pub obs: u64,          // /16 chance of obs-text in values/reason
    pub max_headers: usize,
    pub leading: u64,      // /16 chance of leading empty lines
    pub rich_chunks: bool, // rich chunk-size lines incl. invalid ones
    pub fault_rate: u64,   // /16 chance that a connection carries byte-changing faults
    /// rare "long" mode: tokens up to ~70 KiB, hundreds of header lines (past 255), big capacities
    pub long: bool,
}

impl Swarm {
    pub fn draw(r: &mut Rng) -> Swarm {
        Swarm {
            lf_only: *r.pick(&[0, 0, 2, 8, 16]),
            lenient: *r.pick(&[0, 0, 3, 8]),
            invalid: *r.pick(&[0, 0, 0, 2, 6]),
            long_tok: *r.pick(&[0, 2, 4, 10]),
            obs: *r.pick(&[0, 1, 4]),
            max_headers: *r.pick(&[0, 1, 3, 3, 8, 8, 20]),
            leading: *r.pick(&[0, 0, 2, 8]),
            rich_chunks: r.chance(1, 3),
            fault_rate: *r.pick(&[0, 0, 6, 9, 14]),
            long: r.chance(1, 60),
        }
    }
}

/// log-uniform length in 100..~70000, with emphasis on powers of two and their neighbours
fn long_len(r: &mut Rng) -> usize {
    // threshold probing: fast paths are gated on powers of two; look just below and up to 160
    // bytes above each of them
    if r.chance(1, 3) {
        let t = 1usize << r.range(7, 16);
        return (t + r.below(163)).saturating_sub(2);
    }
    match r.below(4) {
        0 => {
            let p = 1usize << r.range(7, 16);
            (p + r.below(5)).saturating_sub(2)
        }
        1 => *r.pick(&[255usize, 256, 257, 4095, 4096, 4097, 8192, 16384, 32767, 32768, 65535, 65536, 65537, 70000]),
        _ => {
            let bits = r.range(7, 16);
            (1usize << bits) + r.below(1usize << bits)
        }
    }
}

thread_local! {
    /// bytes of long tokens drawn for the message being built (long mode budget)
    static LONG_BUDGET: std::cell::Cell<usize> = std::cell::Cell::new(0);
}
const LONG_BUDGET_MAX: usize = 160 * 1024;

fn long_allowed(n: usize) -> bool {
    LONG_BUDGET.with(|b| {
        if b.get() + n > LONG_BUDGET_MAX {
            false
        } else {
            b.set(b.get() + n);
            true
        }
    })
}

fn len_tok(r: &mut Rng, sw: &Swarm) -> usize {
    if sw.long && r.chance(1, 6) {
        let n = long_len(r);
        if long_allowed(n) {
            return n;
        }
    }
    if r.chance(sw.long_tok, 16) {
        if r.chance(1, 5) {
            r.range(100, 420)
        } else {
            r.range(1, 100)
        }
    } else {
        r.range(1, 12)
    }
}

fn token(r: &mut Rng, n: usize) -> Vec<u8> {
    (0..n).map(|_| *r.pick(TCHARS)).collect()
}

fn eol(r: &mut Rng, sw: &Swarm, v: &mut Vec<u8>) {
    if r.chance(sw.lf_only, 16) {
        v.push(b'\n')
    } else {
        v.extend_from_slice(b"\r\n")
    }
}

fn wsrun(r: &mut Rng, max: usize) -> Vec<u8> {
    let n = r.below(max + 1);
    (0..n).map(|_| if r.chance(2, 3) { b' ' } else { b'\t' }).collect()
}

fn utf8_char(r: &mut Rng) -> Vec<u8> {
    let c = match r.below(6) {
        0 => 0x80u32,
        1 => 0x7ff,
        2 => 0x800,
        3 => 0xffff,
        4 => 0x10000 + r.below(0x1000) as u32,
        _ => 0xe9,
    };
    let c = if (0xd800..0xe000).contains(&c) { 0xe9 } else { c };
    let ch = char::from_u32(c).unwrap_or('é');
    let mut b = [0u8; 4];
    ch.encode_utf8(&mut b).as_bytes().to_vec()
}

fn target(r: &mut Rng, sw: &Swarm) -> Vec<u8> {
    let n = len_tok(r, sw);
    let mut v = Vec::new();
    if r.chance(3, 4) {
        v.push(b'/');
    }
    // long targets are pure ASCII half of the time (ASCII fast paths must be entered too)
    let ascii = n >= 40 && r.chance(1, 2);
    while v.len() < n {
        match if ascii { 10 } else { r.below(24) } {
            0 => v.push(0x21),
            1 => v.push(0x7e),
            2 | 3 => v.extend(utf8_char(r)),
            4 => v.extend_from_slice(b"%20"),
            _ => v.push(*r.pick(b"abcxyz0189/?=&.-_~:@;,+*()[]{}|\\^`\"<>")),
        }
    }
    v
}

fn value(r: &mut Rng, sw: &Swarm) -> Vec<u8> {
    let ln = if sw.long && r.chance(1, 6) { long_len(r) } else { 0 };
    let n = if ln > 0 && long_allowed(ln) {
        ln
    } else if r.chance(sw.long_tok, 16) {
        if r.chance(1, 5) {
            r.range(100, 420)
        } else {
            r.below(101)
        }
    } else {
        r.below(24)
    };
    let mut v: Vec<u8> = Vec::new();
    // long values are "plain" half of the time: no SP/HTAB/obs-text inside, so that unrolled
    // vector loops that only run over clean stretches are actually entered
    let plain = n >= 40 && r.chance(1, 2);
    for i in 0..n {
        let b = match if plain { 10 } else { r.below(20) } {
            0 if i > 0 && i + 1 < n => b' ',
            1 if i > 0 && i + 1 < n => b'\t',
            2 if r.chance(sw.obs, 16) => *r.pick(&[0x80u8, 0xff, 0xe9, 0xbf]),
            3 => *r.pick(b"!~\x21\x7e:;,="),
            _ => *r.pick(b"abcdefXYZ0123456789-_./"),
        };
        v.push(b);
    }
    // values never start or end with whitespace (OWS is added separately)
    while matches!(v.first(), Some(b' ') | Some(b'\t')) {
        v.remove(0);
    }
    while matches!(v.last(), Some(b' ') | Some(b'\t')) {
        v.pop();
    }
    v
}

pub fn body_bytes(r: &mut Rng, n: usize) -> Vec<u8> {
    let fam = r.below(5);
    let mut v = Vec::with_capacity(n);
    while v.len() < n {
        match fam {
            0 => v.extend_from_slice(b"\r\n\r\n"),
            1 => v.extend_from_slice(b"X-Smuggled: 1\r\nGET /evil HTTP/1.1\r\n\r\n"),
            2 => v.push(0),
            3 => v.push(r.byte()),
            _ => v.extend_from_slice(b"HTTP/1.1 200 OK\r\n\r\n0\r\n\r\n"),
        }
    }
    v.truncate(n);
    v
}

/// One header block (without the start line). Returns strictness and the header list (as the
/// default configuration must report it, valid only if strict).
fn header_block(r: &mut Rng, sw: &Swarm, extra: &[(Vec<u8>, Vec<u8>)], v: &mut Vec<u8>, hs: &mut Vec<(Vec<u8>, Vec<u8>)>) -> bool {
    let mut strict = true;
    let mut n = if sw.max_headers == 0 { 0 } else { r.below(sw.max_headers + 1) };
    if sw.long && r.chance(1, 5) {
        n = *r.pick(&[254usize, 255, 256, 257, 300, 1000]);
        // hundreds of lines: spend the long-token budget up front so they stay short
        LONG_BUDGET.with(|b| b.set(LONG_BUDGET_MAX - 20_000));
    }
    let lenient_msg = r.chance(sw.lenient, 16);
    let invalid_msg = r.chance(sw.invalid, 16);
    let mut lines: Vec<Option<(Vec<u8>, Vec<u8>)>> = (0..n).map(|_| None).collect();
    for e in extra {
        let at = r.below(lines.len() + 1);
        lines.insert(at, Some(e.clone()));
    }
    let total = lines.len();
    let mut after_invalid = false;
    for (i, l) in lines.into_iter().enumerate() {
        let was_after_invalid = after_invalid;
        after_invalid = false;
        let (name, val) = match l {
            Some(e) => e,
            None => {
                let n = len_tok(r, sw);
                (token(r, n), value(r, sw))
            }
        };
        // lenient / invalid decorations
        if lenient_msg && r.chance(1, 3) {
            strict = false;
            match r.below(5) {
                0 => {
                    // whitespace before the colon
                    v.extend_from_slice(&name);
                    v.extend(wsrun(r, 2));
                    v.push(if r.chance(1, 2) { b' ' } else { b'\t' });
                    v.push(b':');
                    v.extend_from_slice(&val);
                    eol(r, sw, v);
                }
                1 => {
                    // obsolete fold: value continued on following whitespace-led lines
                    v.extend_from_slice(&name);
                    v.push(b':');
                    v.extend(wsrun(r, 2));
                    if r.chance(3, 4) {
                        v.extend_from_slice(&val);
                    }
                    for _ in 0..r.range(1, 3) {
                        eol(r, sw, v);
                        v.push(if r.chance(1, 2) { b' ' } else { b'\t' });
                        v.extend(wsrun(r, 2));
                        if r.chance(3, 4) {
                            v.extend(value(r, sw));
                        }
                        if invalid_msg && r.chance(1, 4) {
                            // an offending byte inside a continuation line of the folded header
                            v.push(*r.pick(b"\x01\x7f\0\x0b"));
                            after_invalid = true;
                        }
                    }
                    eol(r, sw, v);
                }
                2 if i == 0 || was_after_invalid => {
                    // whitespace before the first header name, possibly a whitespace-only line
                    v.push(if r.chance(1, 2) { b' ' } else { b'\t' });
                    v.extend(wsrun(r, 2));
                    if r.chance(3, 4) {
                        v.extend_from_slice(&name);
                        v.push(b':');
                        v.extend_from_slice(&val);
                    }
                    eol(r, sw, v);
                }
                3 => {
                    // whitespace-led line in the middle (fold of previous or invalid)
                    v.push(b' ');
                    v.extend(value(r, sw));
                    eol(r, sw, v);
                }
                _ => {
                    // empty value followed by fold
                    v.extend_from_slice(&name);
                    v.push(b':');
                    eol(r, sw, v);
                    v.push(b'\t');
                    v.extend(value(r, sw));
                    eol(r, sw, v);
                }
            }
            continue;
        }
        if invalid_msg && r.chance(1, 3) {
            strict = false;
            after_invalid = true;
            match r.below(7) {
                0 => {
                    v.extend_from_slice(&name); // missing colon
                    v.extend(value(r, sw));
                }
                1 => {
                    v.push(b':'); // empty name
                    v.extend_from_slice(&val);
                }
                2 => {
                    v.extend_from_slice(&name);
                    v.push(*r.pick(b"\0\x01\x7f@()[]\"\x80 ")); // bad byte in name
                    v.extend_from_slice(b"x:");
                    v.extend_from_slice(&val);
                }
                3 => {
                    v.extend_from_slice(&name);
                    v.push(b':');
                    v.extend_from_slice(&val);
                    v.push(*r.pick(b"\0\x01\x7f\x0b\x1f")); // bad byte in value
                    v.extend(value(r, sw));
                }
                4 => {
                    v.extend_from_slice(&name); // NUL in an otherwise ignorable line
                    v.extend_from_slice(b" bad\0line");
                }
                5 => {
                    v.extend_from_slice(&name); // lone CR in an otherwise ignorable line
                    v.extend_from_slice(b" bad\rline");
                }
                _ => {
                    v.extend_from_slice(&name);
                    v.push(b':');
                    v.extend_from_slice(&val);
                    v.push(b'\r'); // CR not followed by LF at end of value
                    v.push(*r.pick(b"\rxA "));
                }
            }
            eol(r, sw, v);
            continue;
        }
        let _ = total;
        v.extend_from_slice(&name);
        v.push(b':');
        v.extend(wsrun(r, 3));
        v.extend_from_slice(&val);
        v.extend(wsrun(r, 3));
        eol(r, sw, v);
        hs.push((name, val));
    }
    eol(r, sw, v);
    strict
}

fn framing(r: &mut Rng, kind: Kind, long: bool) -> (Body, Vec<(Vec<u8>, Vec<u8>)>) {
    let _ = kind;
    match r.below(6) {
        0 | 1 => {
            let n = if long && r.chance(1, 2) { *r.pick(&[4096usize, 8192, 9000, 20000]) } else { *r.pick(&[0usize, 1, 2, 5, 17, 64, 300]) };
            let name: &[u8] = *r.pick(&[&b"Content-Length"[..], &b"content-length"[..], &b"CONTENT-LENGTH"[..]]);
            (Body::Len(n), vec![(name.to_vec(), n.to_string().into_bytes())])
        }
        2 => {
            let k = r.below(4);
            let sizes: Vec<u64> = (0..k).map(|_| *r.pick(&[1u64, 2, 9, 10, 15, 16, 17, 31, 255, 256, 700])).collect();
            (Body::Chunked(sizes), vec![(b"Transfer-Encoding".to_vec(), b"chunked".to_vec())])
        }
        _ => (Body::None, vec![]),
    }
}

fn chunk_line(r: &mut Rng, sw: &Swarm, size: u64, v: &mut Vec<u8>) {
    let mut hex = format!("{:x}", size).into_bytes();
    if r.chance(1, 3) {
        for b in hex.iter_mut() {
            if r.chance(1, 2) {
                *b = b.to_ascii_uppercase();
            }
        }
    }
    if sw.rich_chunks && r.chance(1, 3) {
        let z = r.below(16usize.saturating_sub(hex.len()) + 1);
        let mut p = vec![b'0'; z];
        p.extend(hex);
        hex = p;
    }
    v.extend(hex);
    if sw.rich_chunks {
        v.extend(wsrun(r, 2));
        if r.chance(1, 3) {
            v.push(b';');
            let ln = if sw.long && r.chance(1, 2) { long_len(r) } else { 0 };
            let n = if ln > 0 && long_allowed(ln) { ln } else if r.chance(1, 8) { r.range(12, 300) } else { r.below(12) };
            for _ in 0..n {
                let b = *r.pick(b"abc=\"; \t\n\0\x7f\x80\xff;19");
                v.push(b);
            }
        }
    }
    v.extend_from_slice(b"\r\n");
}

fn chunked_body(r: &mut Rng, sw: &Swarm, sizes: &[u64], v: &mut Vec<u8>) {
    for &s in sizes {
        chunk_line(r, sw, s, v);
        v.extend(body_bytes(r, s as usize));
        v.extend_from_slice(b"\r\n");
    }
    chunk_line(r, sw, 0, v);
    // trailer: a small header block (strict)
    if r.chance(1, 4) {
        v.extend_from_slice(b"X-Trailer: done\r\n");
    }
    v.extend_from_slice(b"\r\n");
}

/// An odd chunk-size line that ends the connection: huge, too long, zero digits, junk.
fn odd_chunk_line(r: &mut Rng, v: &mut Vec<u8>) {
    let n = *r.pick(&[0usize, 0, 15, 16, 16, 17, 18, 20]);
    for i in 0..n {
        let b = match r.below(4) {
            0 => b'f',
            1 => b'F',
            2 if i > 0 => b'0',
            _ => *r.pick(b"0123456789abcdefABCDEF"),
        };
        v.push(if i == 0 && r.chance(1, 2) { b'1' } else { b });
    }
    v.extend(wsrun(r, 2));
    if r.chance(1, 2) {
        v.push(b';');
        v.extend_from_slice(b"ext");
        if r.chance(1, 3) {
            // a longer extension with a lone CR at a random lane
            let n = r.range(20, 200);
            let at = r.below(n);
            for i in 0..n {
                v.push(if i == at { b'\r' } else { *r.pick(b"xy=;\"") });
            }
        }
    }
    if r.chance(1, 6) {
        v.push(*r.pick(b"gGxz-\n:"));
    }
    v.extend_from_slice(b"\r\n");
}

pub fn message(r: &mut Rng, sw: &Swarm, kind: Kind, v: &mut Vec<u8>) -> MsgTruth {
    LONG_BUDGET.with(|b| b.set(0));
    let start = v.len();
    let mut t = MsgTruth { start, total: 0, head_len: 0, strict: true, method: vec![], path: vec![], version: 1, code: 0, reason: vec![], headers: vec![], body: Body::None };
    if kind != Kind::Hdrs && r.chance(sw.leading, 16) {
        for _ in 0..r.range(1, 3) {
            eol(r, sw, v);
        }
    }
    let lenient_sl = r.chance(sw.lenient, 24);
    match kind {
        Kind::Req => {
            t.method = match r.below(8) {
                0 | 1 => b"GET".to_vec(),
                2 => b"POST".to_vec(),
                3 => r.pick(&[&b"PO"[..], b"POS", b"POSTX", b"GE", b"GETX", b"P", b"G", b"POST-"]).to_vec(),
                4 => {
                    let n = r.range(1, 40);
                    token(r, n)
                }
                _ => r.pick(&[&b"PUT"[..], b"HEAD", b"DELETE", b"OPTIONS", b"PATCH", b"M-SEARCH"]).to_vec(),
            };
            t.path = target(r, sw);
            t.version = r.below(2) as u8;
            v.extend_from_slice(&t.method);
            v.push(b' ');
            if lenient_sl {
                t.strict = false;
                let k = if sw.long && r.chance(1, 3) { long_len(r).min(20000) } else { r.range(1, 3) };
                for _ in 0..k {
                    v.push(b' ');
                }
            }
            v.extend_from_slice(&t.path);
            v.push(b' ');
            if lenient_sl && r.chance(1, 2) {
                v.push(b' ');
            }
            v.extend_from_slice(if t.version == 1 { b"HTTP/1.1" } else { b"HTTP/1.0" });
            eol(r, sw, v);
        }
        Kind::Resp => {
            t.version = r.below(2) as u8;
            t.code = r.below(1000) as u16;
            v.extend_from_slice(if t.version == 1 { b"HTTP/1.1" } else { b"HTTP/1.0" });
            v.push(b' ');
            if lenient_sl {
                t.strict = false;
                let k = if sw.long && r.chance(1, 3) { long_len(r).min(20000) } else { r.range(1, 3) };
                for _ in 0..k {
                    v.push(b' ');
                }
            }
            v.extend_from_slice(format!("{:03}", t.code).as_bytes());
            // long mode favours the form with a (possibly very long) run of spaces before the reason
            let form = if sw.long && r.chance(1, 3) { 4 } else { r.below(6) };
            let lenient_sl = lenient_sl || (form == 4 && sw.long);
            if form == 4 && sw.long {
                t.strict = false;
            }
            match form {
                0 => {} // no SP, no reason
                1 => v.push(b' '),
                2 => {
                    // reason with obs-text (ill-formed or well-formed UTF-8, short or long, early or
                    // late in the phrase): always reported as ""
                    v.push(b' ');
                    match r.below(5) {
                        0 => v.extend_from_slice(b"Caf\xe9 OK"),
                        1 => v.extend_from_slice("Pr\u{e9}condition \u{e9}chou\u{e9}e".as_bytes()),
                        2 => {
                            v.extend_from_slice("Caf\u{e9} ".as_bytes());
                            let n = r.range(8, 40);
                            v.extend(token(r, n));
                        }
                        3 => {
                            let n = r.range(0, 30);
                            v.extend(token(r, n));
                            v.extend(utf8_char(r));
                            let n = r.range(0, 30);
                            v.extend(token(r, n));
                        }
                        _ => {
                            let n = r.range(0, 40);
                            v.extend(token(r, n));
                            v.push(*r.pick(&[0x80u8, 0xff, 0xc3, 0xa9]));
                            let n = r.range(0, 40);
                            v.extend(token(r, n));
                        }
                    }
                }
                3 => {
                    v.push(b' ');
                    t.reason = b"Not\tFound here".to_vec();
                    if r.chance(1, 2) {
                        // a reason built from the whole reason alphabet, first byte included
                        let n = if sw.long && r.chance(1, 3) { long_len(r).min(20000) } else { r.range(1, 40) };
                        t.reason = (0..n).map(|i| if i == 0 { *r.pick(b"!~Aa0-") } else { *r.pick(b"!~Aa0- \t\t  xyz") }).collect();
                        if sw.long && r.chance(1, 2) && t.reason.len() > 8 {
                            // obs-text early in a long reason: reported as ""
                            t.reason[3] = 0xe9;
                            v.extend_from_slice(&t.reason);
                            t.reason = Vec::new();
                        } else {
                            v.extend_from_slice(&t.reason);
                        }
                    } else {
                        v.extend_from_slice(&t.reason);
                    }
                }
                4 if lenient_sl => {
                    let k = if sw.long && r.chance(1, 2) { long_len(r).min(20000) } else { r.range(2, 4) };
                    for _ in 0..k {
                        v.push(b' ');
                    }
                    v.extend_from_slice(*r.pick(&[&b"Spaced"[..], b"!ok", b"~", b"\tTabbed", b"!"]));
                }
                _ => {
                    v.push(b' ');
                    t.reason = r.pick(&[&b"OK"[..], b"Not Found", b"Internal Server Error", b"Continue", b"x"]).to_vec();
                    v.extend_from_slice(&t.reason);
                }
            }
            eol(r, sw, v);
        }
        _ => {}
    }
    let (body, extra) = if kind == Kind::Chunk { (Body::None, vec![]) } else { framing(r, kind, sw.long) };
    let mut hs = Vec::new();
    let strict_h = header_block(r, sw, &extra, v, &mut hs);
    t.strict &= strict_h;
    t.headers = hs;
    t.head_len = v.len() - start;
    t.body = body.clone();
    match body {
        Body::None => {}
        Body::Len(n) => v.extend(body_bytes(r, n)),
        Body::Chunked(ref sizes) => chunked_body(r, sw, sizes, v),
    }
    t.total = v.len() - start;
    t
}

fn placement(r: &mut Rng) -> Place {
    match r.below(10) {
        0..=4 => Place::END,
        5 => Place { mode: Mode::StartGuard, align: 0, tail: *r.pick(&[Tail::Stale, Tail::Future, Tail::Bait]) },
        _ => Place { mode: Mode::Mid, align: r.below(64) as u8, tail: *r.pick(&[Tail::Stale, Tail::Future, Tail::Bait, Tail::Bait]) },
    }
}

/// Cut points (cumulative "upto" values, last == len) of one delivery schedule.
pub fn schedule(r: &mut Rng, len: usize) -> Vec<usize> {
    let mut cuts: Vec<usize> = Vec::new();
    if len == 0 {
        return vec![0];
    }
    match r.below(8) {
        0 => {} // one shot
        1 if len <= 400 => cuts.extend(1..len), // 1-byte trickle
        2 => {
            // trickle inside a window, coarse elsewhere
            let a = r.below(len);
            let b = (a + r.range(1, 40)).min(len);
            cuts.extend(a..b);
        }
        3 => {
            // long streams: at most ~48 deliveries, or re-parsing a growing buffer gets quadratic
            let step = r.range(1, 64).max(len / 48);
            let mut p = step;
            while p < len {
                cuts.push(p);
                p += step;
            }
        }
        _ => {
            for _ in 0..r.range(1, 6) {
                cuts.push(r.below(len));
            }
        }
    }
    cuts.push(len);
    cuts.sort_unstable();
    cuts.dedup();
    cuts.retain(|&c| c > 0 || len == 0);
    // a zero-byte read before any data arrived: the receiver parses an empty buffer first
    if r.chance(1, 6) {
        cuts.insert(0, 0);
    }
    // zero-byte reads: repeat a cut
    if r.chance(1, 3) {
        let k = r.below(cuts.len());
        let c = cuts[k];
        cuts.insert(k, c);
    }
    cuts
}

pub fn apply_fault(r: &mut Rng, wire: &mut Vec<u8>, heads: &[(usize, usize)]) -> Option<Fault> {
    if wire.is_empty() {
        return None;
    }
    // position biased into heads, and there towards delimiters
    let pos = if !heads.is_empty() && r.chance(5, 6) {
        let (s, e) = *r.pick(heads);
        let e = e.min(wire.len());
        if s >= e {
            r.below(wire.len())
        } else if r.chance(1, 2) {
            // near a delimiter
            let cands: Vec<usize> = (s..e).filter(|&i| matches!(wire[i], b' ' | b':' | b'\r' | b'\n' | b'/' | b'.' | b'\t' | b';')).collect();
            if cands.is_empty() {
                r.range(s, e - 1)
            } else {
                let c = *r.pick(&cands);
                (c + r.below(3)).saturating_sub(1).clamp(s, e - 1)
            }
        } else {
            r.range(s, e - 1)
        }
    } else {
        r.below(wire.len())
    };
    let pal = |r: &mut Rng| if r.chance(3, 4) { *r.pick(PAL) } else { r.byte() };
    // lane-aware corruption: a class-boundary byte somewhere inside a long token (a run of >= 16
    // bytes without delimiters), so every lane of the 8/16/32-byte block scanners gets its turn
    if r.chance(1, 4) && !heads.is_empty() {
        let (s, e) = *r.pick(heads);
        let e = e.min(wire.len());
        let mut runs: Vec<(usize, usize)> = Vec::new();
        let mut st = s;
        for i in s..=e {
            let delim = i == e || matches!(wire[i], b' ' | b':' | b'\r' | b'\n' | b'\t');
            if delim {
                if i - st >= 16 {
                    runs.push((st, i));
                }
                st = i + 1;
            }
        }
        if !runs.is_empty() {
            // pick a run with probability proportional to its length (a 70 KiB token should not
            // lose against twenty short ones), then a position: uniform, or within +-36 of a
            // power-of-two offset from the token start (where length-gated fast paths switch)
            let total: usize = runs.iter().map(|(a, b)| b - a).sum();
            let mut pick = r.below(total);
            let mut chosen = runs[0];
            for &(a, b) in &runs {
                if pick < b - a {
                    chosen = (a, b);
                    break;
                }
                pick -= b - a;
            }
            let (a, b) = chosen;
            let mut at = r.range(a, b - 1);
            if r.chance(1, 2) && b - a > 40 {
                let maxk = (usize::BITS - 1 - (b - a).leading_zeros()) as usize;
                let k = r.range(5, maxk.max(5));
                let cand = (a + (1usize << k) + r.below(72)).saturating_sub(36);
                if cand >= a && cand < b {
                    at = cand;
                }
            }
            let byte = *r.pick(&[0x7fu8, 0x7f, 0x7f, 0x1f, 0x08, 0x00, 0x01, 0x0b, 0x0c, 0x80, 0xff, b'\t', b' ', b':', b'(', b'@']);
            if wire[at] != byte {
                wire[at] = byte;
                // sometimes a second boundary byte right after it or exactly 32 bytes away
                if r.chance(1, 3) {
                    // a second boundary byte — the same one again half of the time, as a repeated
                    // corruption would produce — 1/8/16/24/32/64 bytes away
                    let second = if r.chance(1, 2) { byte } else { *r.pick(&[0x08u8, 0x7f, 0x80, 0xe9, b'\t']) };
                    let off = *r.pick(&[1usize, 1, 8, 8, 16, 24, 32, 32, 64]);
                    if at + off < b {
                        wire[at + off] = second;
                    } else if at >= a + off {
                        wire[at - off] = second;
                    }
                }
                return Some(Fault { kind: "lane", at, arg: byte as u64 });
            }
        }
    }
    // dictionary fault: a multi-byte token a text layer, proxy or confused peer might put on the
    // wire, inserted at the very start of a head (or at the chosen position)
    if r.chance(1, 12) {
        const DICT: &[&[u8]] = &[b"\xEF\xBB\xBF", b"\xFF\xFE", b"\xFE\xFF", b"\r\n", b"\n", b"\r", b"HTTP/1.1 ", b"GET ", b"PRI * HTTP/2.0\r\n\r\nSM\r\n\r\n", b"\0\0\0", b" ", b"\t", b"0\r\n\r\n", b"\x16\x03\x01"];
        let tok = *r.pick(DICT);
        let at = if !heads.is_empty() && r.chance(2, 3) { r.pick(heads).0.min(wire.len()) } else { pos };
        for (i, b) in tok.iter().enumerate() {
            wire.insert(at + i, *b);
        }
        return Some(Fault { kind: "dict_insert", at, arg: tok.len() as u64 });
    }
    Some(match r.below(10) {
        0 | 1 => {
            let bit = r.below(8);
            wire[pos] ^= 1 << bit;
            Fault { kind: "flip", at: pos, arg: bit as u64 }
        }
        2 | 3 | 4 => {
            let b = pal(r);
            if wire[pos] == b {
                return None;
            }
            wire[pos] = b;
            Fault { kind: "subst", at: pos, arg: b as u64 }
        }
        5 | 6 => {
            let b = pal(r);
            wire.insert(pos, b);
            Fault { kind: "insert", at: pos, arg: b as u64 }
        }
        7 => {
            wire.remove(pos);
            Fault { kind: "delete", at: pos, arg: 0 }
        }
        8 => {
            let n = r.range(1, 40).min(wire.len() - pos);
            wire.drain(pos..pos + n);
            Fault { kind: "seg_drop", at: pos, arg: n as u64 }
        }
        _ => {
            let n = r.range(1, 40).min(wire.len() - pos);
            let seg: Vec<u8> = wire[pos..pos + n].to_vec();
            if r.chance(1, 2) {
                // duplicate
                let at = pos + n;
                for (i, b) in seg.iter().enumerate() {
                    wire.insert(at + i, *b);
                }
                Fault { kind: "seg_dup", at: pos, arg: n as u64 }
            } else {
                // swap with the following segment of equal length
                if pos + 2 * n > wire.len() {
                    return None;
                }
                for i in 0..n {
                    wire.swap(pos + i, pos + n + i);
                }
                if wire[pos..pos + n] == seg[..] {
                    return None;
                }
                Fault { kind: "seg_swap", at: pos, arg: n as u64 }
            }
        }
    })
}

pub struct GenOpts {
    pub kinds: &'static [Kind],
    pub force_cfg: Option<u8>,
    /// restrict configs to these bits (others cleared)
    pub cfg_mask: u8,
    pub faults: bool,
    pub max_conns: usize,
    pub chunk_heavy: bool,
}

impl Default for GenOpts {
    fn default() -> GenOpts {
        GenOpts { kinds: &[Kind::Req, Kind::Resp, Kind::Req, Kind::Resp, Kind::Hdrs, Kind::Chunk], force_cfg: None, cfg_mask: 0x7f, faults: true, max_conns: 4, chunk_heavy: false }
    }
}

fn draw_cfg(r: &mut Rng, o: &GenOpts) -> u8 {
    if let Some(c) = o.force_cfg {
        return c;
    }
    let c = match r.below(8) {
        0 | 1 => 0,
        2 | 3 => 1 << r.below(7),
        // all header options on (the three-way interactions), possibly minus one
        4 => 0x7f & !(if r.chance(1, 2) { 0 } else { 1u8 << r.below(7) }),
        _ => r.below(128) as u8,
    };
    c & o.cfg_mask
}

fn draw_entry(r: &mut Rng, cfg: u8) -> u8 {
    if cfg == 0 {
        r.below(4) as u8
    } else if r.chance(1, 2) {
        1
    } else {
        3
    }
}

fn draw_cap(r: &mut Rng, long: bool) -> usize {
    if long && r.chance(1, 2) {
        return *r.pick(&[255usize, 256, 257, 300, 1024]);
    }
    match r.below(8) {
        0 => 0,
        1 => 1,
        2 => r.below(5),
        3 => r.below(10),
        _ => *r.pick(&[16usize, 24, 32, 64]),
    }
}

/// Build one connection's stream of `kind` messages, faults and schedules.
fn connection(r_work: &mut Rng, r_fault: &mut Rng, r_sched: &mut Rng, sw: &Swarm, kind: Kind, o: &GenOpts, t0: u64) -> Conn {
    let mut c = Conn::default();
    let nmsg = r_work.range(1, 5);
    let mut wire = Vec::new();
    let mut heads = Vec::new();
    if kind == Kind::Chunk {
        // a stream of chunked bodies with nothing else
        for _ in 0..nmsg {
            let k = r_work.below(4);
            let sizes: Vec<u64> = (0..k).map(|_| *r_work.pick(&[1u64, 2, 9, 10, 15, 16, 17, 31, 255, 256, 700])).collect();
            let start = wire.len();
            chunked_body(r_work, sw, &sizes, &mut wire);
            c.truth.push(MsgTruth { start, total: wire.len() - start, head_len: 0, strict: true, method: vec![], path: vec![], version: 0, code: 0, reason: vec![], headers: vec![], body: Body::Chunked(sizes) });
            heads.push((start, wire.len()));
        }
    } else {
        for _ in 0..nmsg {
            let t = message(r_work, sw, kind, &mut wire);
            heads.push((t.start, t.start + t.head_len));
            c.truth.push(t);
        }
    }
    if (sw.rich_chunks || o.chunk_heavy) && r_work.chance(1, 3) && (kind == Kind::Chunk) {
        let s = wire.len();
        odd_chunk_line(r_work, &mut wire);
        heads.push((s, wire.len()));
    }
    // byte-changing faults (long mode: at least every second connection carries one)
    if o.faults && r_fault.chance(if sw.long { sw.fault_rate.max(8) } else { sw.fault_rate }, 16) {
        let n = r_fault.range(1, 3);
        let mut first = usize::MAX;
        for _ in 0..n {
            if let Some(f) = apply_fault(r_fault, &mut wire, &heads) {
                first = first.min(f.at);
                c.faults.push(f);
            }
        }
        // sender truth survives only for messages that end before the first touched byte
        c.truth.retain(|m| m.start + m.total <= first);
    }
    // early EOF / reset: the stream just ends
    if r_fault.chance(1, 8) && !wire.is_empty() {
        let k = r_fault.below(wire.len());
        wire.truncate(k);
        c.faults.push(Fault { kind: "eof", at: k, arg: 0 });
        // truth stays valid for whole messages before k
        c.truth.retain(|m| m.start + m.total <= k);
    }
    c.wire = wire;
    let cuts = schedule(r_sched, c.wire.len());
    let mut t = t0;
    for u in cuts {
        t += match r_sched.below(8) {
            0 => 0,
            1..=4 => r_sched.below(900) as u64,
            5 | 6 => 1000 * r_sched.range(1, 200) as u64,
            _ => 1_000_000 * r_sched.range(1, 30) as u64, // stall
        };
        c.deliveries.push(Delivery { upto: u, place: placement(r_sched), time_us: t });
    }
    c.alt = if r_sched.chance(1, 2) { vec![c.wire.len()] } else { schedule(r_sched, c.wire.len()) };
    c.stable = r_sched.chance(1, 2);
    c
}

pub fn gen_conn(seed: u64, o: &GenOpts) -> Trace {
    let base = Rng::new(seed);
    let (mut rw, mut rf, mut rs, mut rk) = (base.split(1), base.split(2), base.split(3), base.split(4));
    let sw = Swarm::draw(&mut rk);
    let kind = *rk.pick(o.kinds);
    let mut t = Trace::empty(Scen::Conn, kind);
    t.seed = seed;
    t.cfg = draw_cfg(&mut rk, o);
    t.entry = draw_entry(&mut rk, t.cfg);
    t.cap = draw_cap(&mut rk, sw.long);
    t.backend = if rk.chance(1, 2) { 0 } else { rk.range(1, 3) as u8 };
    t.reuse = *rk.pick(&[0u8, 0, 1, 1, 2, 3]);
    t.arr_guard = rk.chance(3, 4);
    t.alloc_mode = 1;
    t.knob_seed = rk.next();
    let nconn = if t.reuse == 3 { rk.range(2, o.max_conns.max(2)) } else { rk.range(1, o.max_conns.max(1)) };
    for i in 0..nconn {
        let c = connection(&mut rw, &mut rf, &mut rs, &sw, kind, o, i as u64 * 137);
        t.conns.push(c);
    }
    // global interleaving from delivery times: (time, conn, index) order
    let mut ev: Vec<(u64, usize, usize)> = Vec::new();
    for (ci, c) in t.conns.iter().enumerate() {
        for (di, d) in c.deliveries.iter().enumerate() {
            ev.push((d.time_us, ci, di));
        }
    }
    ev.sort();
    // per connection the deliveries stay in their own order (times are monotone per connection)
    t.order = ev.iter().map(|e| e.1 as u8).collect();
    t
}

/// One (possibly corrupted) head for the prefix sweep: EOF injected at every point.
pub fn gen_sweep(seed: u64, o: &GenOpts) -> Trace {
    let base = Rng::new(seed);
    let (mut rw, mut rf, mut rk) = (base.split(1), base.split(2), base.split(4));
    let mut sw = Swarm::draw(&mut rk);
    sw.max_headers = sw.max_headers.min(8);
    sw.long = sw.long && rk.chance(1, 2);
    let kind = *rk.pick(o.kinds);
    let mut t = Trace::empty(Scen::Sweep, kind);
    t.seed = seed;
    t.cfg = draw_cfg(&mut rk, o);
    t.entry = draw_entry(&mut rk, t.cfg);
    t.cap = draw_cap(&mut rk, sw.long);
    t.backend = if rk.chance(1, 2) { 0 } else { rk.range(1, 3) as u8 };
    t.arr_guard = rk.chance(3, 4);
    t.knob_seed = rk.next();
    let mut c = Conn::default();
    let mut wire = Vec::new();
    if kind == Kind::Chunk {
        let mut s2 = sw.clone();
        s2.rich_chunks = true;
        if rw.chance(1, 3) {
            odd_chunk_line(&mut rw, &mut wire);
        } else {
            let size = *rw.pick(&[0u64, 1, 0xf, 0x10, 0xff, 0xdead, u32::MAX as u64, u64::MAX, u64::MAX >> 4, 1 << 60]);
            chunk_line(&mut rw, &s2, size, &mut wire);
        }
        let n = rw.below(4);
        wire.extend(body_bytes(&mut rw, n));
    } else {
        let m = message(&mut rw, &sw, kind, &mut wire);
        wire.truncate(m.start + m.head_len);
        c.truth.push(MsgTruth { total: m.head_len, body: Body::None, ..m });
        // a few bytes of what follows (body / next message); in long mode a big body
        let n = if sw.long && rw.chance(1, 2) { *rw.pick(&[8192usize, 9000, 20000]) } else { rw.below(12) };
        wire.extend(body_bytes(&mut rw, n));
    }
    if o.faults && rf.chance(if sw.long { sw.fault_rate.max(8) } else { sw.fault_rate }, 16) {
        let heads = [(0usize, wire.len())];
        for _ in 0..rf.range(1, 3) {
            if let Some(f) = apply_fault(&mut rf, &mut wire, &heads) {
                c.faults.push(f);
            }
        }
        if !c.faults.is_empty() {
            c.truth.clear();
        }
    }
    if wire.len() > 700 && !sw.long {
        wire.truncate(700);
        c.truth.clear();
    }
    if wire.len() > 200_000 {
        wire.truncate(200_000);
        c.truth.clear();
    }
    c.wire = wire;
    t.conns.push(c);
    t
}

/// A history of earlier parse calls on one value, then a probe (the last op).
pub fn gen_reuse(seed: u64, o: &GenOpts) -> Trace {
    let base = Rng::new(seed);
    let (mut rw, mut rf, mut rk) = (base.split(1), base.split(2), base.split(4));
    let mut sw = Swarm::draw(&mut rk);
    if rk.chance(1, 24) {
        sw.long = true;
    }
    let kind = if rk.chance(1, 2) { Kind::Req } else { Kind::Resp };
    let mut t = Trace::empty(Scen::Reuse, kind);
    t.seed = seed;
    t.cap = *rk.pick(&[0usize, 1, 2, 4, 8, 16]);
    t.backend = 0;
    t.arr_guard = rk.chance(1, 2);
    t.knob_seed = rk.next();
    t.reuse = 2;
    let n = rk.range(2, 5);
    for _ in 0..n {
        let mut buf = Vec::new();
        let m = message(&mut rw, &sw, kind, &mut buf);
        match rk.below(6) {
            0 => buf.truncate(rw.below(buf.len() + 1)), // a prefix (Partial, most likely)
            1 => {
                let heads = [(0usize, m.head_len)];
                apply_fault(&mut rf, &mut buf, &heads);
            }
            2 => {
                // same head as an earlier op, truncated: the documented re-parse loop
                if let Some(prev) = t.ops.last() {
                    let p: &Op = prev;
                    buf = p.buf.clone();
                    let k = rw.below(buf.len() + 1);
                    buf.truncate(k);
                }
            }
            _ => {}
        }
        let cfg = draw_cfg(&mut rk, o);
        t.ops.push(Op { buf, cfg, entry: draw_entry(&mut rk, cfg), cap: *rk.pick(&[0usize, 1, 3, 8, 16]) });
    }
    t.stable = rk.chance(1, 2);
    // windows: every op looks at a different window [a..b) of one buffer kept at one address
    // (junk before the message, so windows that start earlier see bytes a later one did not)
    if rk.chance(1, 4) {
        let probe = t.ops.last().unwrap().buf.clone();
        let mut big: Vec<u8> = (0..rk.below(12)).map(|_| *rk.pick(PAL)).collect();
        if rk.chance(1, 2) {
            big.extend_from_slice(b"junk ");
        }
        let off = big.len();
        big.extend_from_slice(&probe);
        let k = t.ops.len();
        for (i, op) in t.ops.iter_mut().enumerate() {
            let inner = off + rk.below(probe.len() + 1);
            let a = if i + 1 == k {
                if rk.chance(1, 2) {
                    0
                } else {
                    off
                }
            } else {
                *rk.pick(&[0usize, off, off, inner])
            };
            let b = if i + 1 == k { big.len() } else { rk.range(a.min(big.len()), big.len()) };
            op.buf = big[a.min(b)..b].to_vec();
        }
        // the longest op must contain the others for them to share memory: make the first op the whole buffer's twin
        t.stable = true;
        t.ops.insert(0, Op { buf: big.clone(), cfg: 0, entry: 1, cap: 16 });
        return t;
    }
    // growing-prefix histories: ops are prefixes of the probe
    if rk.chance(1, 3) {
        let probe = t.ops.last().unwrap().buf.clone();
        let k = t.ops.len();
        let marks: Vec<usize> = probe.iter().enumerate().filter(|(_, &b)| matches!(b, b' ' | b':' | b'\r' | b'\n')).map(|(i, _)| i).take(400).collect();
        let keep_first = rk.chance(1, 2);
        for (i, op) in t.ops.iter_mut().enumerate().take(k - 1) {
            if i == 0 && keep_first {
                continue; // an unrelated earlier message stays first in the history
            }
            let cut = if !marks.is_empty() && rk.chance(1, 2) { (*rk.pick(&marks) + rk.below(10)).min(probe.len()) } else { probe.len() * (i + 1) / k };
            op.buf = probe[..cut].to_vec();
        }
    }
    t
}

/// One message with exactly one long, clean element (request target, reason phrase, header value,
/// header name or chunk extension) whose length sits at a scanner threshold: just below to ~190
/// bytes above a power of two or a multiple of 32 bytes. Returns the wire, the element's range
/// and the threshold (as an offset into the element).
fn thresh_wire(r: &mut Rng, kind: Kind, version: u8) -> (Vec<u8>, (usize, usize), usize) {
    let t = if r.chance(1, 6) { 32 * r.range(3, 300) } else { *r.pick(&[128usize, 256, 512, 1024, 1024, 2048, 2048, 2048, 4096, 4096, 4096, 8192, 16384]) };
    let len = (t + r.below(192)).saturating_sub(r.below(3));
    let mut v: Vec<u8> = Vec::new();
    if kind != Kind::Hdrs && kind != Kind::Chunk {
        for _ in 0..*r.pick(&[0usize, 0, 0, 1, 2]) {
            v.extend_from_slice(b"\r\n");
        }
    }
    // which element is the long one: 0 start-line element, 1 header value, 2 header name
    let which = match kind {
        Kind::Req | Kind::Resp => *r.pick(&[0usize, 0, 0, 1, 1, 2]),
        Kind::Hdrs => *r.pick(&[1usize, 1, 2]),
        Kind::Chunk => 0,
    };
    let clean = |r: &mut Rng, n: usize, alphabet: &[u8]| -> Vec<u8> { (0..n).map(|_| *r.pick(alphabet)).collect() };
    let mut range = (0usize, 0usize);
    match kind {
        Kind::Req => {
            { let m: &[u8] = *r.pick(&[&b"GET"[..], b"POST", b"OPTIONS", b"M-SEARCH", b"X"]); v.extend_from_slice(m); }
            v.push(b' ');
            if which == 0 {
                let a = v.len();
                v.push(b'/');
                v.extend(clean(r, len.saturating_sub(1), b"abcxyz0189/?=&.-_~"));
                range = (a, v.len());
            } else {
                v.extend_from_slice(b"/p");
            }
            v.extend_from_slice(b" HTTP/1.");
            v.push(b'0' + version);
            v.extend_from_slice(b"\r\n");
        }
        Kind::Resp => {
            v.extend_from_slice(b"HTTP/1.");
            v.push(b'0' + version);
            { let m: &[u8] = *r.pick(&[&b" 200 "[..], b" 404 ", b" 101 "]); v.extend_from_slice(m); }
            if which == 0 {
                let a = v.len();
                let alpha: &[u8] = if r.chance(1, 2) { b"abcdefXYZ0189-_./" } else { b"abc def\tXYZ0189-_./" };
                v.extend(clean(r, len, alpha));
                let b = v.len();
                if matches!(v[b - 1], b' ' | b'\t') {
                    v[b - 1] = b'k';
                }
                range = (a, b);
            } else {
                v.extend_from_slice(b"OK");
            }
            v.extend_from_slice(b"\r\n");
        }
        Kind::Chunk => {
            { let m: &[u8] = *r.pick(&[&b"1a"[..], b"0", b"fFfF"]); v.extend_from_slice(m); }
            v.push(b';');
            let a = v.len();
            v.extend(clean(r, len, b"abcxyz0189=-_./\""));
            range = (a, v.len());
            v.extend_from_slice(b"\r\n");
            return (v, range, t);
        }
        Kind::Hdrs => {}
    }
    // header block: the long header sits among 0..2 short ones
    let before = r.below(3);
    let after = r.below(2);
    for i in 0..before {
        v.extend_from_slice(format!("h{}: v{}\r\n", i, i).as_bytes());
    }
    if which == 1 {
        { let m: &[u8] = *r.pick(&[&b"cookie: "[..], b"a:", b"x-long-value:\t "]); v.extend_from_slice(m); }
        let a = v.len();
        let alpha: &[u8] = if r.chance(2, 3) { b"abcdefXYZ0123456789-_./=" } else { b"abc def\tXYZ0189-_./;=" };
        v.extend(clean(r, len, alpha));
        let b = v.len();
        if matches!(v[a], b' ' | b'\t') {
            v[a] = b'k';
        }
        if matches!(v[b - 1], b' ' | b'\t') {
            v[b - 1] = b'k';
        }
        range = (a, b);
        v.extend_from_slice(b"\r\n");
    } else if which == 2 {
        let a = v.len();
        v.extend(clean(r, len, TCHARS));
        range = (a, v.len());
        v.extend_from_slice(b": v\r\n");
    }
    for i in 0..after {
        v.extend_from_slice(format!("t{}: w{}\r\n", i, i).as_bytes());
    }
    v.extend_from_slice(b"\r\n");
    (v, range, t)
}

/// The corruption of a threshold run: one class-boundary byte within -40..+150 of the threshold
/// offset of the long element (sometimes a second one 1..64 bytes further on).
fn thresh_fault(r: &mut Rng, wire: &mut [u8], range: (usize, usize), t: usize) -> Option<Fault> {
    let (a, b) = range;
    if b <= a {
        return None;
    }
    let at = (a + t + r.below(190)).saturating_sub(40).clamp(a, b - 1);
    let byte = *r.pick(&[0x7fu8, 0x7f, 0x7f, 0x1f, 0x08, 0x00, 0x01, 0x0b, 0x80, 0xff, 0xe9, b'\t', b' ', b':', b'(', b'@', b'\r', b'\n']);
    if wire[at] == byte {
        return None;
    }
    wire[at] = byte;
    if r.chance(1, 4) {
        let off = *r.pick(&[1usize, 8, 16, 32, 64]);
        if at + off < b {
            wire[at + off] = if r.chance(1, 2) { byte } else { 0x7f };
        }
    }
    Some(Fault { kind: "lane_threshold", at, arg: byte as u64 })
}

/// Threshold probing as a prefix sweep: EOF near every structural byte and near the fault, every
/// call at a different placement, under one sampled backend/config.
pub fn gen_thresh_sweep(seed: u64, o: &GenOpts) -> Trace {
    let base = Rng::new(seed);
    let (mut rw, mut rf, mut rk) = (base.split(1), base.split(2), base.split(4));
    let kind = *rk.pick(o.kinds);
    let mut t = Trace::empty(Scen::Sweep, kind);
    t.seed = seed;
    t.cfg = if rk.chance(1, 2) { 0 } else { draw_cfg(&mut rk, o) };
    t.entry = draw_entry(&mut rk, t.cfg);
    t.cap = *rk.pick(&[4usize, 8, 16, 16, 64]);
    t.backend = if rk.chance(1, 2) { 0 } else { rk.range(1, 3) as u8 };
    t.arr_guard = rk.chance(3, 4);
    t.knob_seed = rk.next();
    t.thresh = true;
    let version = rw.below(2) as u8;
    let (mut wire, range, th) = thresh_wire(&mut rw, kind, version);
    let mut c = Conn::default();
    if o.faults && rf.chance(3, 4) {
        if let Some(f) = thresh_fault(&mut rf, &mut wire, range, th) {
            c.faults.push(f);
        }
    }
    let n = rw.below(12);
    wire.extend(body_bytes(&mut rw, n));
    c.wire = wire;
    t.conns.push(c);
    t
}

/// Threshold probing as a reuse history: an unrelated earlier message, then growing prefixes of a
/// message with a long element (cut inside the element near the threshold, or between the
/// structural bytes after it), then the message itself - at one address most of the time.
pub fn gen_thresh_reuse(seed: u64, o: &GenOpts) -> Trace {
    let base = Rng::new(seed);
    let (mut rw, mut rf, mut rk) = (base.split(1), base.split(2), base.split(4));
    let kind = if rk.chance(1, 2) { Kind::Req } else { Kind::Resp };
    let mut t = Trace::empty(Scen::Reuse, kind);
    t.seed = seed;
    t.cap = *rk.pick(&[1usize, 4, 8, 16]);
    t.backend = 0;
    t.arr_guard = rk.chance(1, 2);
    t.knob_seed = rk.next();
    t.reuse = 2;
    t.thresh = true;
    let version = rw.below(2) as u8;
    let (mut probe, range, th) = thresh_wire(&mut rw, kind, version);
    if o.faults && rf.chance(1, 4) {
        thresh_fault(&mut rf, &mut probe, range, th);
    }
    let same_cfg = if rk.chance(1, 2) { Some(if rk.chance(1, 2) { 0 } else { draw_cfg(&mut rk, o) }) } else { None };
    let push = |t: &mut Trace, rk: &mut Rng, buf: Vec<u8>| {
        let cfg = match same_cfg {
            Some(c) => c,
            None => draw_cfg(rk, o),
        };
        let cap = *rk.pick(&[1usize, 3, 8, 16]);
        t.ops.push(Op { buf, cfg, entry: draw_entry(rk, cfg), cap });
    };
    if rk.chance(3, 4) {
        // an earlier, complete message with the other version (and other field values)
        let sw = Swarm { long: false, ..Swarm::draw(&mut rk) };
        let mut buf = Vec::new();
        if rk.chance(1, 2) {
            message(&mut rw, &sw, kind, &mut buf);
        } else if kind == Kind::Req {
            buf.extend_from_slice(if version == 0 { &b"PUT /earlier HTTP/1.1\r\nk: v\r\n\r\n"[..] } else { &b"PUT /earlier HTTP/1.0\r\nk: v\r\n\r\n"[..] });
        } else {
            buf.extend_from_slice(if version == 0 { &b"HTTP/1.1 500 Earlier\r\nk: v\r\n\r\n"[..] } else { &b"HTTP/1.0 500 Earlier\r\nk: v\r\n\r\n"[..] });
        }
        push(&mut t, &mut rk, buf);
    }
    let (a, b) = range;
    for _ in 0..rk.range(1, 3) {
        let cut = match rk.below(4) {
            0 => (a + th + rk.below(190)).saturating_sub(40).clamp(a, b),
            1 => b + rk.below(4),
            2 => b + rk.below(14),
            _ => rk.below(probe.len() + 1),
        }
        .min(probe.len());
        push(&mut t, &mut rk, probe[..cut].to_vec());
    }
    // growing prefixes, as the documented loop produces them
    if rk.chance(2, 3) {
        let k = t.ops.len();
        let first_related = if k > 0 && !probe.starts_with(&t.ops[0].buf) { 1 } else { 0 };
        t.ops[first_related..].sort_by_key(|o| o.buf.len());
    }
    push(&mut t, &mut rk, probe);
    t.stable = rk.chance(3, 4);
    t
}

/// Large inputs from families that could provoke re-scanning.
pub fn gen_adversarial(seed: u64, max_len: usize) -> Trace {
    let base = Rng::new(seed);
    let mut r = base.split(1);
    let mut rk = base.split(4);
    let kind = *rk.pick(&[Kind::Req, Kind::Resp, Kind::Resp, Kind::Hdrs, Kind::Chunk]);
    let mut t = Trace::empty(Scen::Adversarial, kind);
    t.seed = seed;
    t.cfg = match kind {
        Kind::Resp => *rk.pick(&[0u8, 2, 32, 34, 0x7f, 3, 16 | 2 | 32]),
        Kind::Req => *rk.pick(&[0u8, 64, 4, 16 | 64, 0x7f]),
        _ => 0,
    };
    t.entry = draw_entry(&mut rk, t.cfg);
    t.cap = *rk.pick(&[0usize, 4, 64, 4096, 70000, 100000]);
    t.backend = rk.below(4) as u8;
    t.arr_guard = true;
    t.knob_seed = rk.next();
    let target_len = match rk.below(6) {
        0 => max_len,
        1 => max_len / 4,
        2 => max_len / 16,
        _ => r.range(1, max_len.max(2) / 64 + 1),
    };
    let mut v: Vec<u8> = Vec::new();
    match kind {
        Kind::Req => v.extend_from_slice(b"GET /"),
        Kind::Resp => v.extend_from_slice(b"HTTP/1.1 200 OK\r\n"),
        _ => {}
    }
    let fam = rk.below(11);
    match (kind, fam) {
        (Kind::Chunk, _) => {
            v.extend_from_slice(b"1a ;");
            while v.len() < target_len {
                v.extend_from_slice(b"ext=\"aaaaaaaaaaaaaaaaaaaaaaaaaaaa\n\";");
            }
            v.extend_from_slice(b"\r\n");
        }
        (Kind::Req, 0) => {
            // huge target
            while v.len() < target_len {
                v.push(*r.pick(b"abc/?=&%\xc3\xa9"));
            }
            // keep the UTF-8 valid: strip a dangling lead byte
            v.retain(|&b| b < 0x80);
            v.extend_from_slice(b" HTTP/1.1\r\n\r\n");
        }
        _ => {
            if kind == Kind::Req {
                v.extend_from_slice(b" HTTP/1.1\r\n");
            }
            while v.len() < target_len {
                match fam {
                    10 => {
                        // one long line that ignore-invalid drops, with a lone CR or a NUL placed
                        // around a power-of-two distance from its offending byte
                        v.extend_from_slice(b"Bad ");
                        let k = r.range(6, 16);
                        let at = ((1usize << k) + r.below(4)).saturating_sub(2);
                        for i in 0..(at + r.range(1, 300)) {
                            v.push(if i == at { *r.pick(b"\r\r\0") } else { b'x' });
                        }
                        v.extend_from_slice(b"name: value\r\nGood: 1\r\n");
                        if r.chance(1, 2) {
                            v.extend_from_slice(b"\r\n");
                            break;
                        }
                    }
                    9 => {
                        // tens of thousands of tiny lines (ignored when the config says so): line
                        // counters must not wrap or saturate
                        for _ in 0..r.range(1000, 40000) {
                            v.extend_from_slice(b"@\n");
                        }
                    }
                    8 => {
                        for _ in 0..r.range(1, 400) {
                            v.extend_from_slice(b"a:\n");
                        }
                    }
                    0 => {
                        // one value folded over the whole input (depth = number of lines)
                        v.extend_from_slice(b"X-Fold: a\r\n");
                        while v.len() < target_len {
                            v.extend_from_slice(b" b\r\n");
                        }
                    }
                    1 => {
                        // long runs of fold lines
                        v.extend_from_slice(b"X-Fold: a\r\n");
                        for _ in 0..r.range(1, 200) {
                            v.extend_from_slice(b" b\r\n");
                        }
                    }
                    2 => {
                        // ignored invalid lines
                        for _ in 0..r.range(1, 200) {
                            v.extend_from_slice(b"bad line without colon\r\n");
                        }
                    }
                    3 => {
                        // whitespace runs
                        v.extend_from_slice(b"X-Ws:");
                        for _ in 0..r.range(1, 5000) {
                            v.push(*r.pick(b" \t"));
                        }
                        v.extend_from_slice(b"v\r\n");
                    }
                    4 => {
                        // HTAB in every 8th / 16th / 32nd lane
                        v.extend_from_slice(b"X-Tab: ");
                        let lane = *r.pick(&[8usize, 16, 32, 7, 9]);
                        for i in 0..r.range(1, 4000) {
                            v.push(if i % lane == lane - 1 { b'\t' } else { b'a' });
                        }
                        v.extend_from_slice(b"\r\n");
                    }
                    5 => {
                        // one huge value
                        v.extend_from_slice(b"X-Big: ");
                        for _ in 0..(target_len - v.len().min(target_len)).min(200_000) {
                            v.push(*r.pick(b"abc \xff"));
                        }
                        v.extend_from_slice(b"\r\n");
                    }
                    6 => {
                        // many tiny headers
                        for _ in 0..r.range(1, 500) {
                            v.extend_from_slice(b"a:b\n");
                        }
                    }
                    7 | _ => {
                        // whitespace-only lines / leading whitespace
                        for _ in 0..r.range(1, 300) {
                            v.extend_from_slice(b"  \t \r\n");
                        }
                    }
                }
            }
            if r.chance(3, 4) {
                v.extend_from_slice(b"\r\n");
            }
        }
    }
    let mut c = Conn::default();
    c.wire = v;
    c.deliveries.push(Delivery { upto: c.wire.len(), place: if rk.chance(1, 2) { Place::END } else { placement(&mut rk) }, time_us: 0 });
    t.conns.push(c);
    t.order = vec![0];
    t
}

/// Deterministic adversarial inputs of an exact size for the instruction-count clock (C20):
/// family -> (kind, config bits, capacity, bytes). Generation itself is linear.
pub fn family_input(fam: usize, size: usize) -> Option<(Kind, u8, usize, Vec<u8>)> {
    let mut v: Vec<u8> = Vec::with_capacity(size + 64);
    let fill = |v: &mut Vec<u8>, unit: &[u8], upto: usize| {
        while v.len() + unit.len() <= upto {
            v.extend_from_slice(unit);
        }
    };
    let body = size.saturating_sub(40);
    Some(match fam {
        0 => {
            v.extend_from_slice(b"HTTP/1.1 200 OK\r\nX: a\r\n");
            fill(&mut v, b" \r\n", body);
            v.extend_from_slice(b"\r\n");
            (Kind::Resp, 2, 8, v)
        }
        1 => {
            v.extend_from_slice(b"HTTP/1.1 200 OK\r\nX: a\r\n");
            fill(&mut v, b"\tbcd \r\n", body);
            v.extend_from_slice(b"\r\n");
            (Kind::Resp, 2, 8, v)
        }
        2 => {
            v.extend_from_slice(b"HTTP/1.1 200 OK\r\n");
            fill(&mut v, b"bad line\r\n", body);
            v.extend_from_slice(b"Host: x\r\n\r\n");
            (Kind::Resp, 32, 8, v)
        }
        3 => {
            v.extend_from_slice(b"GET / HTTP/1.1\r\n");
            fill(&mut v, b"bad line \x01 here\n", body);
            v.extend_from_slice(b"Host: x\r\n\r\n");
            (Kind::Req, 64, 8, v)
        }
        4 => {
            v.extend_from_slice(b"GET /");
            fill(&mut v, b"abc/def?x=%20&", body);
            v.extend_from_slice(b" HTTP/1.1\r\n\r\n");
            (Kind::Req, 0, 8, v)
        }
        5 => {
            v.extend_from_slice(b"HTTP/1.1 200 OK\r\nX-Big: ");
            fill(&mut v, b"aaaaaaa\t", body);
            v.extend_from_slice(b"\r\n\r\n");
            (Kind::Resp, 0, 8, v)
        }
        6 => {
            fill(&mut v, b"a:b\n", body);
            v.extend_from_slice(b"\n");
            (Kind::Hdrs, 0, size / 4 + 4, v)
        }
        7 => {
            v.extend_from_slice(b"HTTP/1.1 200 OK\r\nX-Ws:");
            fill(&mut v, b" \t  ", body);
            v.extend_from_slice(b"v\r\n\r\n");
            (Kind::Resp, 0, 8, v)
        }
        8 => {
            v.extend_from_slice(b"1a ;");
            fill(&mut v, b"ext=\"aaaaaaaaaaaa\n\";", body);
            v.extend_from_slice(b"\r\n");
            (Kind::Chunk, 0, 0, v)
        }
        9 => {
            // ignored lines followed by a large body: work must not depend on what follows the head
            v.extend_from_slice(b"HTTP/1.1 200 OK\r\n");
            fill(&mut v, b"bad line\r\n", body / 2);
            v.extend_from_slice(b"Host: x\r\n\r\n");
            fill(&mut v, b"body body body body ", body);
            (Kind::Resp, 32, 8, v)
        }
        10 => {
            // folds that never complete (no terminating empty line): Partial at the end
            v.extend_from_slice(b"HTTP/1.1 200 OK\r\nX: a\r\n");
            fill(&mut v, b" \r\n", body);
            (Kind::Resp, 2 | 32, 8, v)
        }
        11 => {
            // leading whitespace lines / space before first header with ignore
            v.extend_from_slice(b"GET / HTTP/1.1\r\n");
            fill(&mut v, b"  : x\r\n", body);
            v.extend_from_slice(b"\r\n");
            (Kind::Req, 16 | 64, 8, v)
        }
        12 => {
            // unterminated chunk extension (no CR anywhere): Partial
            v.extend_from_slice(b"1a ;");
            fill(&mut v, b"ext=aaaaaaaaaaaa;", body);
            (Kind::Chunk, 0, 0, v)
        }
        13 => {
            // one ignored line: invalid byte, a long valid run, a second invalid byte
            v.extend_from_slice(b"HTTP/1.1 200 OK\r\nA: \x7f");
            fill(&mut v, b"xxxxxxxx", body);
            v.extend_from_slice(b"\x7f\r\nB: 1\r\n\r\n");
            (Kind::Resp, 32, 8, v)
        }
        14 => {
            // the same, cut before the second invalid byte: Partial inside the ignored line
            v.extend_from_slice(b"GET / HTTP/1.1\r\nA: \x01");
            fill(&mut v, b"xxxxxxxx", body);
            (Kind::Req, 64, 8, v)
        }
        15 => {
            // a long run of delimiter spaces under the multi-space options
            v.extend_from_slice(b"HTTP/1.1 200 ");
            fill(&mut v, b"        ", body);
            v.extend_from_slice(b"OK\r\n\r\n");
            (Kind::Resp, 8, 8, v)
        }
        16 => {
            v.extend_from_slice(b"1");
            fill(&mut v, b" \t  ", body);
            v.extend_from_slice(b"\r\n");
            (Kind::Chunk, 0, 0, v)
        }
        17 => {
            v.extend_from_slice(b"HTTP/1.1 200 OK\r\nX-Padded");
            fill(&mut v, b"  \t ", body);
            v.extend_from_slice(b":v\r\n\r\n");
            (Kind::Resp, 1, 8, v)
        }
        18 => {
            fill(&mut v, b"\r\n\n", body);
            v.extend_from_slice(b"GET / HTTP/1.1\r\n\r\n");
            (Kind::Req, 0, 8, v)
        }
        19 => {
            v.extend_from_slice(b"GET");
            fill(&mut v, b"    ", body / 2);
            v.extend_from_slice(b"/");
            fill(&mut v, b"    ", body);
            v.extend_from_slice(b"HTTP/1.1\r\n\r\n");
            (Kind::Req, 4, 8, v)
        }
        20 => {
            v.extend_from_slice(b"HTTP/1.1 200 OK\r\n");
            fill(&mut v, b"Xabcdefg", body);
            v.extend_from_slice(b": v\r\n\r\n");
            (Kind::Resp, 0, 8, v)
        }
        21 => {
            v.extend_from_slice(b"HTTP/1.1 200 ");
            fill(&mut v, b"reason \t", body);
            v.extend_from_slice(b"\r\n\r\n");
            (Kind::Resp, 0, 8, v)
        }
        22 => {
            v.extend_from_slice(b"HTTP/1.1 200 OK\r\n");
            fill(&mut v, b" \t  ", body);
            v.extend_from_slice(b"Name: v\r\n\r\n");
            (Kind::Resp, 16, 8, v)
        }
        23 => {
            v.extend_from_slice(b"HTTP/1.1 200 OK\r\nA:");
            fill(&mut v, b" \t  ", body);
            v.extend_from_slice(b"\r\n\r\n");
            (Kind::Resp, 2, 8, v)
        }
        _ => return None,
    })
}
pub const FAMILIES: usize = 24;
