//! Oracles on a single observed call: per-call monitors (C03 C04 C05 C17 C19 C20), refinement
//! against the reference model with attribution (C06-C10, C14, C11, C02), result comparison.

use crate::model::{self, es, Cfg, Out, St, E};
use crate::sut::{is_sentinel, FieldObs, Kind, Obs, Slot};

pub const NPROPS: usize = 21;
pub fn pbit(id: usize) -> u32 {
    1 << id
}
pub fn pname(id: usize) -> String {
    format!("C{:02}", id)
}

#[derive(Clone, Debug)]
pub struct Violation {
    pub prop: usize,
    pub oracle: &'static str,
    pub detail: String,
}

pub fn run_model(kind: Kind, buf: &[u8], cfg: u8, cap: usize) -> (St, u64, Out) {
    let mut out = Out::default();
    let c = Cfg::from_bits(cfg);
    match kind {
        Kind::Req => {
            let st = model::request(buf, c, cap, &mut out);
            (st, 0, out)
        }
        Kind::Resp => {
            let st = model::response(buf, c, cap, &mut out);
            (st, 0, out)
        }
        Kind::Hdrs => {
            let st = model::headers(buf, 0, model::HCfg::default(), cap, &mut out);
            (st, 0, out)
        }
        Kind::Chunk => {
            let (st, sz) = model::chunk(buf, &mut out);
            (st, sz, out)
        }
    }
}

fn span_eq(f: &Option<FieldObs>, s: Option<(usize, usize)>) -> bool {
    match (f, s) {
        (Some(f), Some((a, b))) => f.inside && f.off == a && f.len == b - a,
        (None, None) => true,
        _ => false,
    }
}

/// Header-affecting option bits (A F S Iresp Ireq).
const HDR_OPTS: u8 = 1 | 2 | 16 | 32 | 64;

/// Compare the observed call with the model. Returns violations with attribution (DESIGN §4.6).
pub fn refine(kind: Kind, buf: &[u8], cfg: u8, obs: &Obs, mst: St, msize: u64, mout: &Out, v: &mut Vec<Violation>) {
    if obs.st == St::Panic {
        return;
    }
    let show = |s: &St| format!("{:?}", s);
    if kind == Kind::Chunk {
        if obs.st != mst || (mst.is_complete() && obs.chunk != msize) {
            let mut props = vec![9];
            if obs.st == St::Partial && matches!(mst, St::Err(_)) {
                props.push(11);
            }
            match (obs.st, mst) {
                (St::Complete(a), St::Complete(b)) if a != b => props.push(3),
                (St::Partial, St::Complete(_)) => props.push(3),
                _ => {}
            }
            for p in props {
                v.push(Violation { prop: p, oracle: "model-refinement", detail: format!("parse_chunk_size: implementation {} size={} but reference model {} size={}", show(&obs.st), obs.chunk, show(&mst), msize) });
            }
        }
        return;
    }
    // where does the property live?
    let start_prop = match kind {
        Kind::Req => 6,
        Kind::Resp => 7,
        _ => 8,
    };
    let hdr_prop = if kind == Kind::Hdrs || cfg & HDR_OPTS == 0 { 8 } else { 14 };
    let model_in_headers = mout.hdr_start.is_some();
    let mut diffs: Vec<(usize, String)> = Vec::new();
    if obs.st != mst {
        let d = format!("{}: implementation {} but reference model {} (model stopped in {})", kind.name(), show(&obs.st), show(&mst), es::name(mout.end_state));
        match (obs.st, mst) {
            (St::Err(a), St::Err(b)) if a != b => diffs.push((10, d)),
            (St::Err(E::TooManyHeaders), _) | (_, St::Err(E::TooManyHeaders)) => {
                // TooManyHeaders exactly when the surplus line completes: C10's last sentence and
                // C17's capacity law say the same thing
                diffs.push((10, d.clone()));
                diffs.push((17, d));
            }
            _ => {
                // start line or header block?
                let real_in_start = match obs.st {
                    St::Err(E::Token) | St::Err(E::Version) | St::Err(E::Status) => true,
                    St::Err(E::HeaderName) | St::Err(E::HeaderValue) => false,
                    _ => match kind {
                        Kind::Req => obs.version.is_none(),
                        Kind::Resp => obs.reason.is_none(),
                        _ => false,
                    },
                };
                let p = if kind != Kind::Hdrs && (!model_in_headers || real_in_start) { start_prop } else { hdr_prop };
                diffs.push((p, d.clone()));
                if obs.st == St::Partial && matches!(mst, St::Err(_)) {
                    diffs.push((11, d.clone()));
                }
                // where the head ends is C03's subject whatever the cause: a different n, or Partial
                // although the reference model already sees the terminating empty line
                match (obs.st, mst) {
                    (St::Complete(_), St::Complete(_)) | (St::Partial, St::Complete(_)) => diffs.push((3, d)),
                    _ => {}
                }
            }
        }
    } else if let St::Complete(_) = mst {
        // fields
        match kind {
            Kind::Req => {
                if !span_eq(&obs.method, mout.method) {
                    diffs.push((6, format!("method: implementation {:?} model span {:?}", obs.method.as_ref().map(|f| (f.off, f.len, f.inside)), mout.method)));
                }
                if !span_eq(&obs.path, mout.path) {
                    diffs.push((6, format!("path: implementation {:?} model span {:?}", obs.path.as_ref().map(|f| (f.off, f.len, f.inside)), mout.path)));
                }
                if obs.version != mout.version {
                    diffs.push((6, format!("version: implementation {:?} model {:?}", obs.version, mout.version)));
                }
            }
            Kind::Resp => {
                if obs.version != mout.version {
                    diffs.push((7, format!("version: implementation {:?} model {:?}", obs.version, mout.version)));
                }
                if obs.code != mout.code {
                    diffs.push((7, format!("code: implementation {:?} model {:?}", obs.code, mout.code)));
                }
                let (rs, re, empty) = mout.reason.unwrap_or((0, 0, true));
                let want: &[u8] = if empty { b"" } else { &buf[rs..re] };
                match &obs.reason {
                    Some(f) if f.bytes == want && (want.is_empty() || (f.inside && f.off == rs)) => {}
                    other => diffs.push((7, format!("reason: implementation {:?} model {:?}", other.as_ref().map(|f| crate::json::show(&f.bytes)), crate::json::show(want)))),
                }
            }
            _ => {}
        }
        if obs.headers.len() != mout.headers.len() {
            diffs.push((hdr_prop, format!("header count: implementation {} model {}", obs.headers.len(), mout.headers.len())));
        } else {
            for (i, (h, (ms, vs))) in obs.headers.iter().zip(mout.headers.iter()).enumerate() {
                let name_ok = h.name.inside && h.name.off == ms.0 && h.name.len == ms.1 - ms.0;
                let val_ok = if vs.1 == vs.0 { h.value.len == 0 } else { h.value.inside && h.value.off == vs.0 && h.value.len == vs.1 - vs.0 };
                if !name_ok || !val_ok {
                    diffs.push((
                        hdr_prop,
                        format!(
                            "header {}: implementation name={:?} value={:?} model name={:?} value={:?}",
                            i,
                            crate::json::show(&h.name.bytes),
                            crate::json::show(&h.value.bytes),
                            crate::json::show(&buf[ms.0..ms.1]),
                            crate::json::show(&buf[vs.0..vs.1])
                        ),
                    ));
                    break;
                }
            }
        }
    } else if mst == St::Partial {
        // start-line fields already reported must be the final ones (C02): the model's spans are
        // prefix-stable, so a field that both have must agree.
        if let (Some(f), Some(s)) = (&obs.method, mout.method) {
            if !(f.inside && f.off == s.0 && f.len == s.1 - s.0) {
                diffs.push((2, format!("method reported with Partial differs from its final value: {:?} vs span {:?}", crate::json::show(&f.bytes), s)));
            }
        }
        if let (Some(f), Some(s)) = (&obs.path, mout.path) {
            if !(f.inside && f.off == s.0 && f.len == s.1 - s.0) {
                diffs.push((2, format!("path reported with Partial differs from its final value: {:?} vs span {:?}", crate::json::show(&f.bytes), s)));
            }
        }
        if let (Some(a), Some(b)) = (obs.version, mout.version) {
            if a != b {
                diffs.push((2, format!("version reported with Partial {} differs from final {}", a, b)));
            }
        }
        if let (Some(a), Some(b)) = (obs.code, mout.code) {
            if a != b {
                diffs.push((2, format!("code reported with Partial {} differs from final {}", a, b)));
            }
        }
    }
    for (p, d) in diffs {
        v.push(Violation { prop: p, oracle: "model-refinement", detail: d });
    }
}

fn utf8_ok(b: &[u8]) -> bool {
    std::str::from_utf8(b).is_ok()
}

/// C05 field hygiene. Needs no model.
pub fn m_hyg(kind: Kind, buf: &[u8], cfg: u8, obs: &Obs, v: &mut Vec<Violation>) {
    let mut bad = |d: String| v.push(Violation { prop: 5, oracle: "M-hyg", detail: d });
    // every &str handed out, on any outcome, is valid UTF-8
    for (nm, f) in [("method", &obs.method), ("path", &obs.path), ("reason", &obs.reason)] {
        if let Some(f) = f {
            if !utf8_ok(&f.bytes) {
                bad(format!("{} is a &str that is not valid UTF-8: {}", nm, crate::json::show(&f.bytes)));
            }
        }
    }
    for h in &obs.headers {
        if !utf8_ok(&h.name.bytes) {
            bad(format!("header name is a &str that is not valid UTF-8: {}", crate::json::show(&h.name.bytes)));
        }
    }
    for s in &obs.slots {
        if let Slot::Written(h) = s {
            if !utf8_ok(&h.name.bytes) {
                bad(format!("header name (array slot) is a &str that is not valid UTF-8: {}", crate::json::show(&h.name.bytes)));
            }
        }
    }
    let n = match obs.st {
        St::Complete(n) => n,
        _ => return,
    };
    if kind == Kind::Chunk {
        return;
    }
    let fold = kind == Kind::Resp && cfg & 2 != 0;
    if kind == Kind::Req {
        if let Some(m) = &obs.method {
            if m.bytes.is_empty() || !m.bytes.iter().all(|&b| model::tchar(b)) {
                bad(format!("method is not a non-empty tchar run: {}", crate::json::show(&m.bytes)));
            }
        } else {
            bad("method missing on Complete".into());
        }
        if let Some(p) = &obs.path {
            if p.bytes.is_empty() || !p.bytes.iter().all(|&b| model::urichar(b)) || !utf8_ok(&p.bytes) {
                bad(format!("path is not a non-empty valid-UTF-8 run of 0x21-0x7E/0x80-0xFF: {}", crate::json::show(&p.bytes)));
            }
        } else {
            bad("path missing on Complete".into());
        }
        if !matches!(obs.version, Some(0) | Some(1)) {
            bad(format!("version {:?} is not 0 or 1", obs.version));
        }
    }
    if kind == Kind::Resp {
        if !matches!(obs.version, Some(0) | Some(1)) {
            bad(format!("version {:?} is not 0 or 1", obs.version));
        }
        match &obs.reason {
            Some(r) => {
                if !r.bytes.iter().all(|&b| b == 9 || (0x20..=0x7e).contains(&b)) {
                    bad(format!("reason contains a byte outside HTAB/SP/0x21-0x7E: {}", crate::json::show(&r.bytes)));
                }
            }
            None => bad("reason missing on Complete".into()),
        }
        // code equals the three digits after the version and its SP run
        let mut p = 0;
        while p < buf.len() && (buf[p] == b'\r' || buf[p] == b'\n') {
            p += 1;
        }
        p += 8;
        while p < buf.len() && buf[p] == b' ' {
            p += 1;
        }
        let digits = buf.get(p..p + 3);
        let want = digits.and_then(|d| if d.iter().all(|c| c.is_ascii_digit()) { Some((d[0] - b'0') as u16 * 100 + (d[1] - b'0') as u16 * 10 + (d[2] - b'0') as u16) } else { None });
        if obs.code.is_none() || obs.code != want {
            bad(format!("code {:?} is not the value of the three digits {:?}", obs.code, digits.map(crate::json::show)));
        }
    }
    for h in &obs.headers {
        if h.name.bytes.is_empty() || !h.name.bytes.iter().all(|&b| model::tchar(b)) {
            bad(format!("header name is not a non-empty tchar run: {}", crate::json::show(&h.name.bytes)));
        }
        let val = &h.value.bytes;
        if let (Some(&f), Some(&l)) = (val.first(), val.last()) {
            if model::ws(f) || model::ws(l) {
                bad(format!("header value starts or ends with SP/HTAB: {}", crate::json::show(val)));
            }
        }
        for (i, &b) in val.iter().enumerate() {
            let ok = model::valchar(b) || (fold && ((b == b'\n' && matches!(val.get(i + 1), Some(b' ') | Some(9))) || (b == b'\r' && val.get(i + 1) == Some(&b'\n'))));
            if !ok {
                bad(format!("header value contains a forbidden byte 0x{:02x} at {}: {}", b, i, crate::json::show(val)));
                break;
            }
        }
    }
    if n <= buf.len() {
        let head = &buf[..n];
        if head.contains(&0) {
            bad("consumed head contains a NUL byte".into());
        }
        for i in 0..n {
            if head[i] == b'\r' && head.get(i + 1) != Some(&b'\n') {
                bad(format!("consumed head contains a CR not followed by LF at offset {}", i));
                break;
            }
        }
    }
}

/// C04 zero-copy, runtime half.
pub fn m_ptr(kind: Kind, obs: &Obs, fresh: bool, v: &mut Vec<Violation>) {
    if kind == Kind::Chunk {
        return;
    }
    let mut bad = |d: String| v.push(Violation { prop: 4, oracle: "M-ptr", detail: d });
    let n = match obs.st {
        St::Complete(n) => Some(n),
        _ => None,
    };
    let limit = n.unwrap_or(obs.buf_len);
    // start-line fields of a reused value may be stale after Partial/Err (C18 allows that); only
    // fresh values or Complete results are held to the pointer rule
    let mut last_end = 0usize;
    if fresh || n.is_some() {
        let seq: Vec<(&str, &Option<FieldObs>)> = if kind == Kind::Req { vec![("method", &obs.method), ("path", &obs.path)] } else { vec![("reason", &obs.reason)] };
        for (nm, f) in seq {
            if let Some(f) = f {
                if f.len == 0 {
                    continue;
                }
                if !f.inside {
                    bad(format!("{} ({}) is not a sub-slice of the caller's buffer", nm, crate::json::show(&f.bytes)));
                } else if f.end() > limit {
                    bad(format!("{} [{}..{}) lies outside the consumed head buf[..{}]", nm, f.off, f.end(), limit));
                } else if n.is_some() {
                    if f.off < last_end {
                        bad(format!("{} at {} overlaps or precedes the previous field ending at {}", nm, f.off, last_end));
                    }
                    last_end = f.end();
                }
            }
        }
    }
    if n.is_some() {
        for (i, h) in obs.headers.iter().enumerate() {
            for (nm, f) in [("name", &h.name), ("value", &h.value)] {
                if f.len == 0 {
                    continue;
                }
                if !f.inside {
                    bad(format!("header {} {} ({}) is not a sub-slice of the caller's buffer", i, nm, crate::json::show(&f.bytes)));
                } else if f.end() > limit {
                    bad(format!("header {} {} [{}..{}) lies outside the consumed head buf[..{}]", i, nm, f.off, f.end(), limit));
                } else {
                    if f.off < last_end {
                        bad(format!("header {} {} at {} overlaps or precedes the previous field ending at {}", i, nm, f.off, last_end));
                    }
                    last_end = f.end();
                }
            }
        }
    } else {
        // Partial / Err: every slot this call wrote must point into this buffer
        for (i, s) in obs.slots.iter().enumerate() {
            if let Slot::Foreign = s {
                bad(format!("array slot {} was overwritten with something that is not a header from this buffer", i));
            }
        }
    }
}

fn line_is_blank_ws(line: &[u8]) -> bool {
    let l = if line.last() == Some(&b'\r') { &line[..line.len() - 1] } else { line };
    !l.is_empty() && l.iter().all(|&b| b == b' ' || b == b'\t')
}

/// C03 framing: an independent linear scan for the first empty line.
pub fn m_frame(kind: Kind, buf: &[u8], cfg: u8, obs: &Obs, v: &mut Vec<Violation>) {
    let mut bad = |d: String| v.push(Violation { prop: 3, oracle: "M-frame", detail: d });
    if kind == Kind::Chunk {
        if let St::Complete(n) = obs.st {
            let want = buf.windows(2).position(|w| w == b"\r\n").map(|p| p + 2);
            if n > buf.len() || want != Some(n) {
                bad(format!("parse_chunk_size Complete n={} but the first CRLF ends at {:?}", n, want));
            }
        }
        return;
    }
    // end of the start line
    let sl_end = if kind == Kind::Hdrs {
        Some(0)
    } else {
        let mut s0 = 0;
        loop {
            if buf[s0..].starts_with(b"\r\n") {
                s0 += 2
            } else if buf[s0..].starts_with(b"\n") {
                s0 += 1
            } else {
                break;
            }
        }
        buf[s0..].iter().position(|&b| b == b'\n').map(|p| p + s0 + 1)
    };
    let s_opt = kind != Kind::Hdrs && cfg & 16 != 0;
    match obs.st {
        St::Complete(n) => {
            if n > buf.len() {
                bad(format!("Complete(n={}) exceeds the buffer length {}", n, buf.len()));
                return;
            }
            let sl = match sl_end {
                Some(s) => s,
                None => {
                    bad("Complete although the start line has no line end".into());
                    return;
                }
            };
            let hdr0 = obs.headers.first().map(|h| h.name.off);
            // (a first header reported as starting before the header block is a field error, which
            // other properties own; it must not move the framing expectation)
            let hdr0_bogus = hdr0.map_or(false, |h| h < sl || h == usize::MAX);
            // With obsolete folding on, a whitespace-led line after a header line continues that
            // header (C14) and is no line of its own; telling the two apart needs the grammar, so
            // under S+F the whitespace-only candidate is only used for the line directly after the
            // start line, and otherwise the rule is weakened to its sound core (below).
            let fold = kind == Kind::Resp && cfg & 2 != 0;
            let hdr0 = if hdr0_bogus { None } else { hdr0 };
            let mut ls = sl;
            let mut cand = None;
            while let Some(p) = buf[ls..].iter().position(|&b| b == b'\n') {
                let nl = ls + p;
                let line = &buf[ls..nl];
                if line.is_empty() || line == b"\r" {
                    cand = Some(nl + 1);
                    break;
                }
                if s_opt && ((!fold && !hdr0_bogus) || ls == sl) && hdr0.map_or(true, |h| ls < h) && line_is_blank_ws(line) {
                    cand = Some(nl + 1);
                    break;
                }
                ls = nl + 1;
            }
            if s_opt && (fold || hdr0_bogus) {
                // sound core: the head never extends past the first strictly empty line, and the
                // line it ends with is empty, or whitespace-only before the first stored header
                let upper = cand.unwrap_or(usize::MAX);
                let ok = if n == upper {
                    true
                } else if n < upper && n > sl && buf[n - 1] == b'\n' {
                    let ls2 = buf[..n - 1].iter().rposition(|&b| b == b'\n').map(|p| p + 1).unwrap_or(0);
                    hdr0.map_or(true, |h| ls2 < h) && line_is_blank_ws(&buf[ls2..n - 1])
                } else {
                    false
                };
                if !ok {
                    bad(format!("Complete(n={}) but the first empty line after the start line ends at {:?} (folding and space-before-first-header on)", n, cand));
                }
            } else if cand != Some(n) {
                bad(format!("Complete(n={}) but the first empty line after the start line ends at {:?}", n, cand));
            }
        }
        St::Partial => {
            if let Some(sl) = sl_end {
                let mut ls = sl;
                while let Some(p) = buf[ls..].iter().position(|&b| b == b'\n') {
                    let nl = ls + p;
                    let line = &buf[ls..nl];
                    if line.is_empty() || line == b"\r" {
                        bad(format!("Partial although an empty line is already in the buffer (ends at {})", nl + 1));
                        break;
                    }
                    // with allow_space_before_first_header_name a whitespace-only line directly
                    // after the start line (no header can have been stored yet) ends the head too
                    if s_opt && ls == sl && line_is_blank_ws(line) {
                        bad(format!("Partial although a whitespace-only line directly after the start line ends the head at {} (allow_space_before_first_header_name)", nl + 1));
                        break;
                    }
                    ls = nl + 1;
                }
            }
        }
        _ => {}
    }
}

/// C17 header storage (monitor part).
pub fn m_store(kind: Kind, obs: &Obs, model_count: Option<usize>, v: &mut Vec<Violation>) {
    if kind == Kind::Chunk {
        return;
    }
    let mut bad = |d: String| v.push(Violation { prop: 17, oracle: "M-store", detail: d });
    if obs.poison_exposed {
        bad("an uninitialised (poison) slot is exposed through `headers`".into());
    }
    match obs.st {
        St::Complete(_) => {
            if obs.hdr_off != Some(0) {
                bad(format!("on Complete `headers` does not start at the start of the caller's array (offset {:?})", obs.hdr_off));
                return;
            }
            if let Some(c) = model_count {
                if obs.hdr_len != c {
                    bad(format!("headers.len()={} but {} header lines were accepted", obs.hdr_len, c));
                }
            }
            if obs.hdr_len > obs.eff_cap {
                bad(format!("headers.len()={} exceeds the capacity {}", obs.hdr_len, obs.eff_cap));
            }
            for (i, s) in obs.slots.iter().enumerate() {
                if i < obs.hdr_len {
                    // a slot whose bytes did not change can still be a header of this buffer: a
                    // reused array re-parsing the same buffer at the same address
                    let same_again = matches!(s, Slot::Untouched) && obs.headers.get(i).map_or(false, |h| h.name.inside && h.name.len > 0 && (h.value.inside || h.value.len == 0));
                    if !matches!(s, Slot::Written(_)) && !same_again {
                        bad(format!("exposed element {} is not a header parsed from this buffer ({:?})", i, s));
                    }
                } else if !matches!(s, Slot::Untouched) {
                    bad(format!("array slot {} beyond the count {} did not keep its previous content", i, obs.hdr_len));
                }
            }
            for (i, h) in obs.headers.iter().enumerate() {
                if is_sentinel(h) {
                    bad(format!("exposed element {} is the caller's old content, not a parsed header", i));
                }
            }
        }
        St::Partial | St::Err(_) => {
            if kind == Kind::Hdrs {
                // parse_headers returns no slice; only the slots can be judged
            } else if obs.uninit {
                if !obs.headers_untouched {
                    bad("uninit entry point changed `headers` although the result is Partial/Err".into());
                }
            } else if obs.hdr_off != Some(0) || obs.hdr_len != obs.eff_cap {
                bad(format!("after Partial/Err `headers` is not the caller's whole array: offset {:?} len {} (array len {})", obs.hdr_off, obs.hdr_len, obs.eff_cap));
            }
            for (i, s) in obs.slots.iter().enumerate() {
                if let Slot::Foreign = s {
                    bad(format!("array slot {} holds neither its previous content nor a header from this buffer", i));
                }
            }
        }
        St::Panic => {}
    }
}

/// C19 allocation monitor.
pub fn m_alloc(obs: &Obs, v: &mut Vec<Violation>) {
    if obs.st != St::Panic && obs.allocs > 0 && obs.env_lookups > 0 {
        v.push(Violation { prop: 19, oracle: "M-alloc", detail: format!("{} allocator call(s) during the parse call (last size {}) after {} environment lookup(s) that found the variable set", obs.allocs, obs.alloc_size, obs.env_lookups) });
        return;
    }
    if obs.st != St::Panic && obs.allocs > 0 {
        v.push(Violation { prop: 19, oracle: "M-alloc", detail: format!("{} allocator call(s) during the parse call (last size {})", obs.allocs, obs.alloc_size) });
    }
}

pub const WORK_K: u64 = 8;
pub const WORK_K0: u64 = 256;

/// C20 metered work.
pub fn m_work(obs: &Obs, v: &mut Vec<Violation>) {
    if obs.st == St::Panic || !crate::sut::HAS_METER {
        return;
    }
    let (new, adv, steps, peeks, back) = obs.work;
    let len = obs.buf_len as u64;
    let mut bad = |d: String| v.push(Violation { prop: 20, oracle: "M-work", detail: d });
    if back > 0 {
        bad(format!("cursor moved backwards by {} bytes", back));
    }
    if adv > len {
        bad(format!("cursor travelled {} bytes through a buffer of {} bytes", adv, len));
    }
    // (how many cursor objects a call creates is an implementation detail; only their summed
    // travel counts)
    let _ = new;
    if steps + peeks > WORK_K * len + WORK_K0 {
        bad(format!("{} cursor operations for a buffer of {} bytes (bound {}*len+{})", steps + peeks, len, WORK_K, WORK_K0));
    }
}

fn field_same(a: &Option<FieldObs>, b: &Option<FieldObs>) -> bool {
    match (a, b) {
        (None, None) => true,
        (Some(x), Some(y)) => x.bytes == y.bytes && (x.len == 0 || (x.inside == y.inside && x.off == y.off)),
        _ => false,
    }
}

pub fn headers_same(a: &Obs, b: &Obs) -> bool {
    a.headers.len() == b.headers.len()
        && a.headers.iter().zip(b.headers.iter()).all(|(x, y)| field_same(&Some(x.name.clone()), &Some(y.name.clone())) && field_same(&Some(x.value.clone()), &Some(y.value.clone())))
}

/// Full equality of what the caller can see: status, n, chunk size, start-line fields, and the
/// headers on Complete.
pub fn same_full(a: &Obs, b: &Obs) -> Option<String> {
    if a.st != b.st {
        return Some(format!("status {:?} vs {:?}", a.st, b.st));
    }
    if a.chunk != b.chunk {
        return Some(format!("chunk size {} vs {}", a.chunk, b.chunk));
    }
    if !field_same(&a.method, &b.method) {
        return Some(format!("method {:?} vs {:?}", a.method.as_ref().map(|f| crate::json::show(&f.bytes)), b.method.as_ref().map(|f| crate::json::show(&f.bytes))));
    }
    if !field_same(&a.path, &b.path) {
        return Some(format!("path {:?} vs {:?}", a.path.as_ref().map(|f| crate::json::show(&f.bytes)), b.path.as_ref().map(|f| crate::json::show(&f.bytes))));
    }
    if a.version != b.version {
        return Some(format!("version {:?} vs {:?}", a.version, b.version));
    }
    if a.code != b.code {
        return Some(format!("code {:?} vs {:?}", a.code, b.code));
    }
    if !field_same(&a.reason, &b.reason) {
        return Some(format!("reason {:?} vs {:?}", a.reason.as_ref().map(|f| crate::json::show(&f.bytes)), b.reason.as_ref().map(|f| crate::json::show(&f.bytes))));
    }
    if a.st.is_complete() && !headers_same(a, b) {
        return Some(format!("headers differ ({} vs {})", a.headers.len(), b.headers.len()));
    }
    None
}

/// Equality of the status, and of all fields and headers when Complete (C18 / C16 across init
/// and uninit variants).
pub fn same_status_and_complete(a: &Obs, b: &Obs) -> Option<String> {
    if a.st != b.st {
        return Some(format!("status {:?} vs {:?}", a.st, b.st));
    }
    if a.st.is_complete() {
        return same_full(a, b);
    }
    None
}

pub fn obs_digest(o: &Obs) -> u64 {
    let mut h = crate::rng::mix(o.st.class() as u64);
    let mut add = |x: u64| h = crate::rng::mix(h ^ x);
    if let St::Complete(n) = o.st {
        add(n as u64);
    }
    add(o.chunk);
    for f in [&o.method, &o.path, &o.reason] {
        match f {
            Some(f) => {
                add(1);
                add(f.len as u64);
                if f.len > 0 {
                    add(f.off as u64);
                }
            }
            None => add(0),
        }
    }
    add(o.version.map_or(99, |v| v as u64));
    add(o.code.map_or(9999, |v| v as u64));
    if o.st.is_complete() {
        for hd in &o.headers {
            add(hd.name.off as u64);
            add(hd.name.len as u64);
            add(hd.value.len as u64);
            if hd.value.len > 0 {
                add(hd.value.off as u64);
            }
        }
    }
    h
}
