//! Placement arena: the "memory" seam. Buffers and header arrays are placed inside mmap'd regions
//! bracketed by PROT_NONE pages, at a start alignment and with a tail the simulator chooses.
//! Under Miri (no mprotect) exact-size heap allocations play the role of the guard pages.

use std::ptr;

pub const PAGE: usize = 4096;

#[derive(Clone, Copy, Debug, PartialEq, Eq, Hash)]
pub enum Mode {
    /// Last byte of the buffer is the last byte before an unmapped page.
    EndGuard,
    /// First byte of the buffer directly follows an unmapped page.
    StartGuard,
    /// In the middle of mapped memory, at start alignment `align` mod 64, followed by `tail`.
    Mid,
}

#[derive(Clone, Copy, Debug, PartialEq, Eq, Hash)]
pub enum Tail {
    None,
    /// junk bytes (deterministic)
    Stale,
    /// the bytes of the stream that have not been "received" yet
    Future,
    /// bytes chosen to tempt a parser that peeks past the end: CRLFCRLF, SP, colon ...
    Bait,
}

#[derive(Clone, Copy, Debug, PartialEq, Eq, Hash)]
pub struct Place {
    pub mode: Mode,
    pub align: u8,
    pub tail: Tail,
}

impl Place {
    pub const END: Place = Place { mode: Mode::EndGuard, align: 0, tail: Tail::None };
    pub fn code(&self) -> u32 {
        (self.mode as u32) | (self.align as u32) << 2 | (self.tail as u32) << 8
    }
    pub fn from_code(c: u32) -> Place {
        let mode = match c & 3 {
            0 => Mode::EndGuard,
            1 => Mode::StartGuard,
            _ => Mode::Mid,
        };
        let tail = match (c >> 8) & 3 {
            0 => Tail::None,
            1 => Tail::Stale,
            2 => Tail::Future,
            _ => Tail::Bait,
        };
        Place { mode, align: ((c >> 2) & 63) as u8, tail }
    }
}

#[cfg(not(miri))]
mod sys {
    extern "C" {
        pub fn mmap(addr: *mut u8, len: usize, prot: i32, flags: i32, fd: i32, off: i64) -> *mut u8;
        pub fn mprotect(addr: *mut u8, len: usize, prot: i32) -> i32;
        pub fn munmap(addr: *mut u8, len: usize) -> i32;
    }
    pub const PROT_NONE: i32 = 0;
    pub const PROT_RW: i32 = 3;
    pub const MAP_PRIVATE_ANON: i32 = 0x02 | 0x20;
}

pub static LIVE_REGIONS: AtomicU64 = AtomicU64::new(0);

struct Region {
    /// start of the whole mapping (the leading guard page)
    base: *mut u8,
    /// number of usable bytes between the two guard pages (multiple of PAGE)
    data: usize,
}

impl Region {
    #[cfg(not(miri))]
    fn new(data: usize) -> Region {
        let total = data + 2 * PAGE;
        // SAFETY: plain anonymous mapping; checked for failure below.
        unsafe {
            let base = sys::mmap(ptr::null_mut(), total, sys::PROT_NONE, sys::MAP_PRIVATE_ANON, -1, 0);
            if base as isize == -1 || base.is_null() {
                eprintln!("HARNESS-ERROR mmap failed for {} bytes (run {})", total, CURRENT_RUN.load(Ordering::Relaxed));
                std::process::exit(2);
            }
            if sys::mprotect(base.add(PAGE), data, sys::PROT_RW) != 0 {
                eprintln!("HARNESS-ERROR mprotect failed for {} bytes (run {}, {} live regions)", data, CURRENT_RUN.load(Ordering::Relaxed), LIVE_REGIONS.load(Ordering::Relaxed));
                std::process::exit(2);
            }
            LIVE_REGIONS.fetch_add(1, Ordering::Relaxed);
            Region { base, data }
        }
    }
    fn lo(&self) -> *mut u8 {
        // SAFETY: inside the mapping
        unsafe { self.base.add(PAGE) }
    }
    fn hi(&self) -> *mut u8 {
        // SAFETY: inside the mapping
        unsafe { self.base.add(PAGE + self.data) }
    }
}

#[cfg(not(miri))]
impl Drop for Region {
    fn drop(&mut self) {
        // SAFETY: unmapping exactly what was mapped
        unsafe {
            sys::munmap(self.base, self.data + 2 * PAGE);
        }
        LIVE_REGIONS.fetch_sub(1, Ordering::Relaxed);
    }
}

/// Standard region: 4 data pages. Larger requests get a dedicated region.
const STD_DATA: usize = 4 * PAGE;
const PAD: usize = 128;

pub struct Arena {
    #[cfg(not(miri))]
    std_regions: Vec<Region>,
    #[cfg(not(miri))]
    used: usize,
    #[cfg(not(miri))]
    big: Vec<Region>,
    #[cfg(miri)]
    heap: Vec<Vec<u64>>,
    #[cfg(miri)]
    boxes: Vec<*mut [u8]>,
    pub placed: u64,
}

const BAIT: &[u8] = b"\r\n\r\n \t:x\r\n\r\nHTTP/1.1 200 OK\r\n\r\n0\r\n\r\n; \r\n\r\n";

impl Arena {
    pub fn new() -> Arena {
        Arena {
            #[cfg(not(miri))]
            std_regions: Vec::new(),
            #[cfg(not(miri))]
            used: 0,
            #[cfg(not(miri))]
            big: Vec::new(),
            #[cfg(miri)]
            heap: Vec::new(),
            #[cfg(miri)]
            boxes: Vec::new(),
            placed: 0,
        }
    }

    /// Everything handed out so far becomes invalid. Call only between runs.
    pub fn reset(&mut self) {
        #[cfg(not(miri))]
        {
            self.used = 0;
            self.big.clear();
            if self.std_regions.len() > 4096 {
                self.std_regions.truncate(4096);
            }
        }
        #[cfg(miri)]
        {
            self.heap.clear();
            self.free_boxes(0);
        }
    }

    #[cfg(miri)]
    fn free_boxes(&mut self, keep: usize) {
        while self.boxes.len() > keep {
            let p = self.boxes.pop().unwrap();
            // SAFETY: created by Box::into_raw in place()
            drop(unsafe { Box::from_raw(p) });
        }
    }

    /// Stack discipline for short-lived placements (differential re-issues on throw-away values):
    /// everything placed after `mark` is handed back by `release`.
    pub fn mark(&self) -> (usize, usize) {
        #[cfg(not(miri))]
        {
            (self.used, self.big.len())
        }
        #[cfg(miri)]
        {
            (self.heap.len(), self.boxes.len())
        }
    }
    pub fn release(&mut self, m: (usize, usize)) {
        #[cfg(not(miri))]
        {
            self.used = m.0;
            self.big.truncate(m.1);
        }
        #[cfg(miri)]
        {
            self.heap.truncate(m.0);
            self.free_boxes(m.1);
        }
    }

    #[cfg(not(miri))]
    fn region(&mut self, need: usize) -> (*mut u8, *mut u8) {
        if need + 2 * PAD <= STD_DATA {
            if self.used == self.std_regions.len() {
                self.std_regions.push(Region::new(STD_DATA));
            }
            let r = &self.std_regions[self.used];
            self.used += 1;
            (r.lo(), r.hi())
        } else {
            let data = (need + 2 * PAD + PAGE - 1) / PAGE * PAGE;
            self.big.push(Region::new(data));
            let r = self.big.last().unwrap();
            (r.lo(), r.hi())
        }
    }

    /// Copy `data` into fresh memory according to `place`. `future` supplies the bytes for
    /// `Tail::Future`. The returned slice lives until `reset`.
    #[cfg(not(miri))]
    pub fn place(&mut self, data: &[u8], place: Place, future: &[u8]) -> &'static [u8] {
        self.placed += 1;
        let len = data.len();
        let (lo, hi) = self.region(len);
        // SAFETY: all writes below stay inside [lo, hi), which is mapped read-write.
        unsafe {
            let start = match place.mode {
                Mode::EndGuard => hi.sub(len),
                Mode::StartGuard => lo,
                Mode::Mid => {
                    let s = lo.add(64 + place.align as usize);
                    // deterministic junk before the buffer
                    for i in 0..(64 + place.align as usize) {
                        *lo.add(i) = (i as u8).wrapping_mul(37) ^ 0x5a;
                    }
                    s
                }
            };
            ptr::copy_nonoverlapping(data.as_ptr(), start, len);
            // tail
            let after = start.add(len);
            let room = (hi as usize - after as usize).min(PAD - 32);
            if place.mode != Mode::EndGuard {
                for i in 0..room {
                    let b = match place.tail {
                        Tail::None => 0u8,
                        Tail::Stale => (i as u8).wrapping_mul(101) ^ 0xc3,
                        Tail::Future => {
                            if i < future.len() {
                                future[i]
                            } else {
                                b'\n'
                            }
                        }
                        Tail::Bait => BAIT[i % BAIT.len()],
                    };
                    *after.add(i) = b;
                }
            }
            std::slice::from_raw_parts(start, len)
        }
    }

    /// A receive buffer that stays where it is for a whole connection: `len` bytes of junk ending
    /// at a guard page; the executor copies each delivery in and hands out growing prefixes.
    pub fn stable(&mut self, len: usize) -> *mut u8 {
        let p = self.raw(len, true, 0);
        // SAFETY: `raw` returned `len` writable bytes
        unsafe {
            for i in 0..len {
                *p.add(i) = (i as u8).wrapping_mul(113) ^ 0x3c;
            }
        }
        p
    }

    /// Memory for `bytes` bytes aligned to 8, either ending at a guard page (`end_guard`) or in the
    /// middle of a region. Contents are filled with `fill`.
    #[cfg(not(miri))]
    pub fn raw(&mut self, bytes: usize, end_guard: bool, fill: u8) -> *mut u8 {
        let (lo, hi) = self.region(bytes + 8);
        // SAFETY: inside the mapped region
        unsafe {
            let start = if end_guard { hi.sub(bytes) } else { lo.add(64) };
            debug_assert!(start as usize % 8 == 0 || bytes % 8 != 0);
            ptr::write_bytes(start, fill, bytes);
            if !end_guard {
                ptr::write_bytes(start.add(bytes), fill ^ 0xff, 64);
            }
            start
        }
    }

    #[cfg(miri)]
    pub fn place(&mut self, data: &[u8], place: Place, future: &[u8]) -> &'static [u8] {
        self.placed += 1;
        // exact-size allocation: Miri reports any access outside it. Alignment offset is emulated
        // inside a u64-aligned allocation only for Mid placement (then the allocation is larger).
        let len = data.len();
        match place.mode {
            Mode::Mid => {
                let off = (place.align as usize) % 8;
                let mut v = vec![0u64; (off + len + 64 + 7) / 8 + 1];
                // SAFETY: v has room for off+len+64 bytes
                unsafe {
                    let p = (v.as_mut_ptr() as *mut u8).add(off);
                    ptr::copy_nonoverlapping(data.as_ptr(), p, len);
                    for i in 0..64 {
                        *p.add(len + i) = match place.tail {
                            Tail::Future if i < future.len() => future[i],
                            Tail::Bait => BAIT[i % BAIT.len()],
                            _ => 0xc3,
                        };
                    }
                    self.heap.push(v);
                    std::slice::from_raw_parts(p, len)
                }
            }
            _ => {
                let raw: *mut [u8] = Box::into_raw(data.to_vec().into_boxed_slice());
                self.boxes.push(raw);
                // SAFETY: freed only in reset()/release(), after every user is gone
                unsafe { &*raw }
            }
        }
    }

    #[cfg(miri)]
    pub fn raw(&mut self, bytes: usize, _end_guard: bool, fill: u8) -> *mut u8 {
        // exact size (rounded to 8): Miri reports any access outside. Poison-filled requests stay
        // truly uninitialised so that Miri itself flags a read of an unwritten slot.
        let mut v: Vec<u64> = Vec::with_capacity((bytes + 7) / 8);
        let p = v.as_mut_ptr() as *mut u8;
        if fill != 0xA5 {
            // SAFETY: capacity covers `bytes`
            unsafe { ptr::write_bytes(p, fill, bytes) };
        }
        self.heap.push(v);
        p
    }
}

// ---------------------------------------------------------------------------------------------
// Crash reporting: a signal handler on an alternate stack that names the run that died.

use std::sync::atomic::{AtomicU64, Ordering};
pub static CURRENT_RUN: AtomicU64 = AtomicU64::new(u64::MAX);

#[cfg(not(miri))]
mod sig {
    use super::*;
    #[repr(C)]
    struct SigAction {
        handler: usize,
        mask: [u64; 16],
        flags: i32,
        restorer: usize,
    }
    #[repr(C)]
    struct StackT {
        sp: *mut u8,
        flags: i32,
        size: usize,
    }
    extern "C" {
        fn sigaction(sig: i32, act: *const SigAction, old: *mut SigAction) -> i32;
        fn sigaltstack(ss: *const StackT, old: *mut StackT) -> i32;
        fn write(fd: i32, buf: *const u8, n: usize) -> isize;
        fn _exit(code: i32) -> !;
        fn alarm(seconds: u32) -> u32;
    }
    /// Watchdog: the run must finish within `seconds` (0 cancels). SIGALRM is reported like a crash
    /// ("CRASH sig=14 run=<i>"), i.e. a run that fails to terminate kills only its worker.
    pub fn watchdog(seconds: u32) {
        // SAFETY: plain libc call
        unsafe {
            alarm(seconds);
        }
    }
    const SA_SIGINFO: i32 = 4;
    const SA_ONSTACK: i32 = 0x0800_0000;

    extern "C" fn on_signal(sig: i32, _info: *mut u8, _ctx: *mut u8) {
        let run = CURRENT_RUN.load(Ordering::Relaxed);
        let mut buf = [0u8; 64];
        let mut n = 0;
        for &b in b"CRASH sig=" {
            buf[n] = b;
            n += 1;
        }
        n += put_num(&mut buf[n..], sig as u64);
        for &b in b" run=" {
            buf[n] = b;
            n += 1;
        }
        n += put_num(&mut buf[n..], run);
        buf[n] = b'\n';
        n += 1;
        // SAFETY: async-signal-safe calls only
        unsafe {
            write(1, buf.as_ptr(), n);
            _exit(101);
        }
    }
    fn put_num(out: &mut [u8], mut v: u64) -> usize {
        let mut tmp = [0u8; 20];
        let mut i = 0;
        if v == 0 {
            tmp[0] = b'0';
            i = 1;
        }
        while v > 0 {
            tmp[i] = b'0' + (v % 10) as u8;
            v /= 10;
            i += 1;
        }
        for k in 0..i {
            out[k] = tmp[i - 1 - k];
        }
        i
    }
    pub fn install() {
        // SAFETY: installing handlers with a leaked alternate stack
        unsafe {
            let stack = Box::leak(vec![0u8; 65536].into_boxed_slice());
            let st = StackT { sp: stack.as_mut_ptr(), flags: 0, size: stack.len() };
            sigaltstack(&st, std::ptr::null_mut());
            let act = SigAction { handler: on_signal as usize, mask: [0; 16], flags: SA_SIGINFO | SA_ONSTACK, restorer: 0 };
            for s in [11, 7, 4, 8, 6, 14] {
                sigaction(s, &act, std::ptr::null_mut());
            }
        }
    }
}

pub fn install_crash_handler() {
    #[cfg(not(miri))]
    sig::install();
}

pub fn watchdog(_seconds: u32) {
    #[cfg(not(miri))]
    sig::watchdog(_seconds);
}
